run() { echo "=== $1 $2 $3"; ( time ./vcheck $1 thorough --no-evidence --only $2 ${3:+--cases $3} ) 2>&1 | grep -v "^    "; }
run C17 curves 43000
run C06 files 16000
run C09 rebalances 54000
run C10 random 270000; run C10 csv 8000; run C10 grid
run C11 random 270000; run C11 csv 8000; run C11 grid
run C12 random 107000; run C12 session 7000; run C12 sweep
run C13 random 80000; run C13 session 14000; run C13 sweep
run C19 universes 107000; run C19 optimisers 54000; run C19 sessions 16000; run C19 static 16000
run C07 pairs 16000
run C18 sessions 3200; run C18 reuse 10700
run C05 fills 160000
run C03 broker 40000; run C03 random 107000
run C14 sessions 27000
run C08 sessions 21000
run C15 histories 21000
run C01 histories 21000; run C01 programs 40000
run C02 programs 80000; run C02 histories 8500
run C04 histories 21000; run C04 minutes; run C04 days
