#!/usr/bin/env python3
"""Regenerates /verif/MANIFEST.json from the table below (run after adding a check)."""
import json
import os
import subprocess

VERIF = os.path.dirname(os.path.dirname(os.path.abspath(__file__)))

# id -> (technique, level text, level note, design ref)
def _hist(prop):
    return ('rule-based stateful testing (Hypothesis RuleBasedStateMachine) against an exact-rational reference model',
            'DESIGN.md section 4 ' + prop)


CHECKS = {
    'C01': (
        _hist('C01')[0],
        'Generated histories (transfers, portfolio creation, orders, quote moves, clock updates) run against a real '
        'broker and an exact-rational ledger; after every step master and portfolio cash, both account aggregates '
        'and the event history (count, order, type, cents-rounded amounts and balances) must agree with the ledger. '
        'Exploration: the quantifier is over all interleavings; thousands of shrinkable histories are sampled.',
        'Trusts the harness ledger (Fractions) and the transaction tap; fill price/commission taken as tapped; '
        'histories <= 60 steps, <= 4 portfolios, <= 5 assets; 1e-9 relative float tolerance.',
        _hist('C01')[1]),
    'C02': (
        'property-based testing (Hypothesis programs + rule-based state machine) against a net-of-fills / last-price model',
        'Generated Portfolio-level programs of fills and marks and generated broker histories; after every step the '
        'holdings report, per-asset and total market value and total equity must equal the model (net of tapped '
        'fills x latest fill-or-mark price, cash + market value).',
        'Trusts the harness model; cash read from the portfolio; whole-number quantities; <= 60 steps.',
        'DESIGN.md section 4 C02'),
    'C03': (
        'control-path enumeration + property-based ladders (Hypothesis) against algebraic identities in exact rationals',
        'Every sign pattern x magnitude template of up to 4 (quick) / 6 (thorough) fills plus random ladders of up to '
        '80 fills, through Position, PositionHandler and Portfolio; total == realised + unrealised == market value - '
        'cash flows of the fills, unrealised == (mark - average cost) x net, re-marks move unrealised only.',
        'Floating point: identities asserted to 1e-9 of the gross traded value; whole-number quantities.',
        'DESIGN.md section 4 C03'),
    'C04': (
        _hist('C04')[0] + ' + exhaustive minute sweep against an independent exchange-hours predicate',
        'Generated order/clock histories checked step by step against a FIFO/sells-first model and an independent '
        'is_open predicate (submit changes nothing; closed updates fill nothing; open updates fill exactly the pending '
        'orders once, in full, sells first, FIFO inside a side), plus a submit/update pair at every minute of a fortnight.',
        'Every ordered asset is quoted; ordering across portfolios not asserted; <= 60 steps.',
        'DESIGN.md section 4 C04'),
    'C05': (
        'property-based testing (Hypothesis) with a time-varying stub quote table; closed-form price/commission oracle and buy/sell mirror relation',
        'Generated single-update fills: fill time, side of the quote at the update instant, commission == rate x '
        '|round(price x qty)|, cash delta on a zero-funded portfolio, and equal commission for the mirrored trade.',
        'Stub data handler stands in for any DataHandler; update instants >= 1 minute inside exchange hours.',
        'DESIGN.md section 4 C05'),
    'C10': (
        'property-based testing (Hypothesis) + exhaustive grid against exact-rational budget inequalities',
        'Generated direct calls of the long-only sizer on a real broker: non-negative whole quantities, q*p + fee <= '
        'normalised share of (1-buffer)*equity < (q+1)*p + fee, total <= budget, invalid inputs rejected with ValueError.',
        'Equity read from the broker; commission + tax <= 1; 1e-12 relative slack.',
        'DESIGN.md section 4 C10'),
    'C11': (
        'property-based testing (Hypothesis) + exhaustive grid against exact-rational sign/truncation/leverage inequalities',
        'Generated direct calls of the long/short sizer: whole quantities carrying the weight\'s sign, |q|*p <= '
        '|allocation after fees| and within one currency unit of the largest affordable, gross <= L*E*(1+f), invalid '
        'leverage / NaN price rejected.',
        'Equity read from the broker; commission + tax <= 1; 1e-12 relative slack.',
        'DESIGN.md section 4 C11'),
    'C12': (
        'property-based testing (Hypothesis) + exhaustive date sweep against an independent date-arithmetic calendar',
        'Generated (start,end,flags) ranges and a bounded exhaustive sweep; the emitted event list must equal a '
        'calendar rebuilt from datetime.date arithmetic and be strictly increasing; end<start must raise.',
        'Trusts datetime.date arithmetic and pandas Timestamp comparison; UTC-aware inputs with end time-of-day '
        '>= start time-of-day only; dates 1990-2040.',
        'DESIGN.md section 4 C12'),
    'C13': (
        'property-based testing (Hypothesis) + exhaustive date sweep against an independent date-arithmetic calendar',
        'Generated ranges x schedule kinds: each schedule must equal the date-arithmetic calendar (list equality, '
        'strictly increasing, 21:00/14:30 UTC) and every instant must be a clock event for the same range under all '
        'flag settings; buy-and-hold = start or next Monday; unknown weekdays rejected.',
        'UTC-aware inputs with end time-of-day >= start time-of-day; dates 1990-2040.',
        'DESIGN.md section 4 C13'),
    'C15': (
        'rule-based stateful testing (Hypothesis) with injected invalid requests; deep-snapshot equality oracle',
        'Generated histories with 30 kinds of invalid request injected after fills and with orders pending: each must '
        'raise the documented error type and leave master cash, portfolio cash, holdings, pending orders, history and '
        'the portfolio/queue key sets identical.',
        'Portfolio-internal clock not compared; broker clock never moved backwards; <= 60 steps.',
        'DESIGN.md section 4 C15'),
}

PENDING_REASON = 'check not yet built in this session (planned: property-based check, see DESIGN.md section 4)'


def main():
    props = [json.loads(l) for l in open(os.path.join(VERIF, 'properties.jsonl'))]
    hooks_commits = []
    checks, na = [], []
    for p in props:
        pid = p['id']
        if pid in CHECKS and os.path.exists(os.path.join(VERIF, 'checks')):
            tech, text, note, ref = CHECKS[pid]
            checks.append({
                'property_id': pid,
                'quick_cmd': './vcheck %s quick' % pid,
                'thorough_cmd': './vcheck %s thorough' % pid,
                'evidence_file': 'evidence/%s.json' % pid,
                'replay_cmd_template': './vcheck %s --replay {path}' % pid,
                'engine': 'vcheck',
                'level_claimed': {'category': 'exploration', 'text': text, 'design_ref': ref},
                'level_note': note,
                'technique': tech,
            })
        else:
            na.append({'property_id': pid, 'reason': PENDING_REASON})
    man = {
        'version': 1,
        'setup_cmd': './setup.sh',
        'hooks': {
            'guard': 'QSTRADER_VERIF',
            'enable': 'no source hooks are needed: checks import /repo\'s working tree directly and observe it '
                      'through public API and harness-side wrappers; QSTRADER_VERIF is reserved and unused',
            'baseline_off_cmd': 'cd /repo && /venv/bin/python -m pytest -q -p no:cacheprovider tests',
            'source_commits': hooks_commits,
            'add_only': True,
        },
        'engines': [{
            'name': 'vcheck', 'path': 'vcheck',
            'serves_properties': [c['property_id'] for c in checks],
            'kind_free_text': 'Hypothesis 6.168 property-based / rule-based stateful testing with explicit '
                              'reference oracles, sharded over processes; shrunk cases are JSON replay files',
        }],
        'checks': checks,
        'not_applicable': na,
        'notes': 'All checks: ./vcheck <ID> <quick|thorough>; VERIF_SEED selects the generator seed; exit 0 held, '
                 '1 VIOLATION, 2 harness error/inconclusive. KNOWN_FINDINGS.txt lists repaired defects (fixed:) '
                 'and recorded ones (KNOWN-FINDING:). seeded/ holds independently written breaking changes and '
                 'which checks catch them.',
    }
    if not na:
        del man['not_applicable']
    with open(os.path.join(VERIF, 'MANIFEST.json'), 'w') as f:
        json.dump(man, f, indent=1)
    print('MANIFEST.json: %d checks, %d not_applicable' % (len(checks), len(na)))


if __name__ == '__main__':
    main()
