#!/usr/bin/env python3
"""Regenerates /verif/MANIFEST.json from the table below (run after adding a check)."""
import json
import os
import subprocess

VERIF = os.path.dirname(os.path.dirname(os.path.abspath(__file__)))

# id -> (technique, level text, level note, design ref)
CHECKS = {
    'C12': (
        'property-based testing (Hypothesis) + exhaustive date sweep against an independent date-arithmetic calendar',
        'Generated (start,end,flags) ranges and a bounded exhaustive sweep; the emitted event list must equal a '
        'calendar rebuilt from datetime.date arithmetic and be strictly increasing; end<start must raise. '
        'Exploration: the quantifier is over all date ranges, the oracle is exact, the space is sampled.',
        'Trusts datetime.date arithmetic and pandas Timestamp comparison; UTC-aware inputs with end time-of-day '
        '>= start time-of-day only; dates 1990-2040.',
        'DESIGN.md section 4 C12'),
}

PENDING_REASON = 'check not yet built in this session (planned: property-based check, see DESIGN.md section 4)'


def main():
    props = [json.loads(l) for l in open(os.path.join(VERIF, 'properties.jsonl'))]
    hooks_commits = []
    checks, na = [], []
    for p in props:
        pid = p['id']
        if pid in CHECKS and os.path.exists(os.path.join(VERIF, 'checks')):
            tech, text, note, ref = CHECKS[pid]
            checks.append({
                'property_id': pid,
                'quick_cmd': './vcheck %s quick' % pid,
                'thorough_cmd': './vcheck %s thorough' % pid,
                'evidence_file': 'evidence/%s.json' % pid,
                'replay_cmd_template': './vcheck %s --replay {path}' % pid,
                'engine': 'vcheck',
                'level_claimed': {'category': 'exploration', 'text': text, 'design_ref': ref},
                'level_note': note,
                'technique': tech,
            })
        else:
            na.append({'property_id': pid, 'reason': PENDING_REASON})
    man = {
        'version': 1,
        'setup_cmd': './setup.sh',
        'hooks': {
            'guard': 'QSTRADER_VERIF',
            'enable': 'no source hooks are needed: checks import /repo\'s working tree directly and observe it '
                      'through public API and harness-side wrappers; QSTRADER_VERIF is reserved and unused',
            'baseline_off_cmd': 'cd /repo && /venv/bin/python -m pytest -q -p no:cacheprovider tests',
            'source_commits': hooks_commits,
            'add_only': True,
        },
        'engines': [{
            'name': 'vcheck', 'path': 'vcheck',
            'serves_properties': [c['property_id'] for c in checks],
            'kind_free_text': 'Hypothesis 6.168 property-based / rule-based stateful testing with explicit '
                              'reference oracles, sharded over processes; shrunk cases are JSON replay files',
        }],
        'checks': checks,
        'not_applicable': na,
        'notes': 'All checks: ./vcheck <ID> <quick|thorough>; VERIF_SEED selects the generator seed; exit 0 held, '
                 '1 VIOLATION, 2 harness error/inconclusive. KNOWN_FINDINGS.txt lists repaired defects (fixed:) '
                 'and recorded ones (KNOWN-FINDING:). seeded/ holds independently written breaking changes and '
                 'which checks catch them.',
    }
    if not na:
        del man['not_applicable']
    with open(os.path.join(VERIF, 'MANIFEST.json'), 'w') as f:
        json.dump(man, f, indent=1)
    print('MANIFEST.json: %d checks, %d not_applicable' % (len(checks), len(na)))


if __name__ == '__main__':
    main()
