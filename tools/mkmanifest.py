#!/usr/bin/env python3
"""Regenerates /verif/MANIFEST.json from the table below (run after adding a check)."""
import json
import os
import subprocess

VERIF = os.path.dirname(os.path.dirname(os.path.abspath(__file__)))

# id -> (technique, level text, level note, design ref)
def _hist(prop):
    return ('rule-based stateful testing (Hypothesis RuleBasedStateMachine) against an exact-rational reference model',
            'DESIGN.md section 4 ' + prop)


CHECKS = {
    'C01': (
        _hist('C01')[0],
        'Generated histories (transfers, portfolio creation, orders, quote moves, clock updates) run against a real '
        'broker and an exact-rational ledger; after every step master and portfolio cash, both account aggregates '
        'and the event history (count, order, type, cents-rounded amounts and balances) must agree with the ledger. '
        'Exploration: the quantifier is over all interleavings; thousands of shrinkable histories are sampled.',
        'Trusts the harness ledger (Fractions) and the transaction tap; fill price/commission taken as tapped; '
        'histories <= 60 steps, <= 4 portfolios, <= 5 assets; 1e-9 relative float tolerance.',
        _hist('C01')[1]),
    'C02': (
        'property-based testing (Hypothesis programs + rule-based state machine) against a net-of-fills / last-price model',
        'Generated Portfolio-level programs of fills and marks and generated broker histories; after every step the '
        'holdings report, per-asset and total market value and total equity must equal the model (net of tapped '
        'fills x latest fill-or-mark price, cash + market value).',
        'Trusts the harness model; cash read from the portfolio; whole-number quantities; <= 60 steps.',
        'DESIGN.md section 4 C02'),
    'C03': (
        'control-path enumeration + property-based ladders (Hypothesis) against algebraic identities in exact rationals',
        'Every sign pattern x magnitude template of up to 4 (quick) / 6 (thorough) fills plus random ladders of up to '
        '80 fills, through Position, PositionHandler and Portfolio; total == realised + unrealised == market value - '
        'cash flows of the fills, unrealised == (mark - average cost) x net, re-marks move unrealised only.',
        'Floating point: identities asserted to 1e-9 of the gross traded value; whole-number quantities.',
        'DESIGN.md section 4 C03'),
    'C04': (
        _hist('C04')[0] + ' + exhaustive minute sweep against an independent exchange-hours predicate',
        'Generated order/clock histories checked step by step against a FIFO/sells-first model and an independent '
        'is_open predicate (submit changes nothing; closed updates fill nothing; open updates fill exactly the pending '
        'orders once, in full, sells first, FIFO inside a side), plus a submit/update pair at every minute of a fortnight.',
        'Every ordered asset is quoted; ordering across portfolios not asserted; <= 60 steps.',
        'DESIGN.md section 4 C04'),
    'C05': (
        'property-based testing (Hypothesis) with a time-varying stub quote table; closed-form price/commission oracle and buy/sell mirror relation',
        'Generated single-update fills: fill time, side of the quote at the update instant, commission == rate x '
        '|round(price x qty)|, cash delta on a zero-funded portfolio, and equal commission for the mirrored trade.',
        'Stub data handler stands in for any DataHandler; update instants >= 1 minute inside exchange hours.',
        'DESIGN.md section 4 C05'),
    'C06': (
        'property-based testing (Hypothesis) over generated CSV files: pure-Python point-in-time oracle + metamorphic future-rewrite / row-order invariance',
        'Generated bar files (gaps, missing cells, weekend rows, shuffled rows, 1-2 symbols) x both adjustment modes x '
        '~25 boundary-heavy query instants: get_bid/get_ask and the handler\'s bid/ask/pair/mid must equal a lookup '
        'over the raw rows (NaN before the first open), and the answer at t must be bit-identical when rows opening '
        'after t are rewritten or deleted and rows are permuted.',
        'Well-formed CSV with unique dates; Close never empty while Adj Close present; 1995-2039.',
        'DESIGN.md section 4 C06'),
    'C07': (
        'differential property-based testing (Hypothesis): paired sessions with the future rewritten/removed, repr-equality of everything dated <= T',
        'Generated market x configuration x cut day T: world B rewrites or deletes every row after T; history, fills, '
        'equity and allocation rows dated <= T must be bit-identical and failures at or before T must be identical. '
        'Covers fixed, universe-driven, momentum, SMA and volatility alphas, static/dynamic universes, late-starting '
        'symbols, gappy data, every schedule and sizer.',
        'Configurations that are not deterministic (A != A\') are skipped and left to C18; sessions <= 60 days.',
        'DESIGN.md section 4 C07'),
    'C08': (
        'model-based property testing (Hypothesis): sessions compared with a reference back-tester written from the documented rules in exact rationals',
        'Generated fixed-weight sessions on dense markets under every schedule, both sizers, buffers, leverages, fees '
        'and cash levels: fills (time, asset, quantity exact; price, commission 1e-9), final cash and holdings, daily '
        'equity and recorded weights must equal the reference; cases with a sizing quotient within 1e-12 of a rounding '
        'boundary are excluded and counted.',
        'Dense markets; weight sums 0 or >= 0.05; buy-and-hold batch compared as a multiset; 1e-9 tolerance.',
        'DESIGN.md section 4 C08'),
    'C09': (
        'property-based testing (Hypothesis) of the construction model on a real broker: set/difference model with targets from a second real-sizer call, then post-fill holdings',
        'Generated holdings (long, short, outside the universe), universes, alpha dicts (subset/superset/disjoint/none), '
        'both sizers, 1-4 successive rebalances: orders must be exactly target - held for the non-zero differences, '
        'sorted, unique, stamped with the instant; after filling holdings equal the target; unweighted holdings end '
        'at zero; the allocation row covers exactly universe u held u alpha.',
        'Targets come from the real sizer (C10/C11 own sizing); all assets quoted.',
        'DESIGN.md section 4 C09'),
    'C14': (
        'property-based testing (Hypothesis) of full sessions with a recording alpha model and a transaction tap; schedule/burn-in filter and equity recomputation oracle',
        'Generated sessions x burn-in classes: construction runs exactly at the documented schedule\'s instants that are '
        'clock events and >= burn-in; fills only at 14:30 weekdays and never before the first such instant; one equity '
        'point per business day whose close is >= burn-in, equal to cash - tapped fills + holdings at the generated '
        'close; the allocation table carries forward the latest rebalance per equity date.',
        'Scheduled instants and business days from the independent calendar; dense markets; fills as tapped.',
        'DESIGN.md section 4 C14'),
    'C16': (
        'property-based testing (Hypothesis): signal streams and full sessions against textbook formulas over the harness\'s own price lists',
        'Generated interleaved price streams (append and collection updates, static and dynamic universes, confusable '
        'asset names, lookbacks 1-30) with every signal queried after every step, and generated sessions where each '
        'buffer must hold exactly the last closes since entry, warmup equals the business days, and the values seen '
        'at each rebalance equal momentum / SMA / population volatility x sqrt(252) over the closes so far.',
        'Positive prices; market data exists before every entry; 1e-9 relative tolerance (momentum relative to 1+m).',
        'DESIGN.md section 4 C16'),
    'C17': (
        'property-based testing (Hypothesis) over equity-curve shape classes: textbook statistics in pure Python, scale-invariance metamorphic relation, tearsheet == JSON == file round trip',
        'Generated positive curves (walk, monotone, first-point-peak, flat stretches, V, spike, 2-600 points, any '
        'months/years): returns, cumulative returns, drawdown series (running max including the first point), max '
        'drawdown, duration, monthly/yearly groups and weekly/monthly/yearly totals, CAGR, Sharpe, Sortino must match '
        'the definitions; unchanged under x2^k (bit-exact) and xc (1e-9); tearsheet, JSON and statistics.json agree.',
        'Sharpe/Sortino only when well conditioned; exact ties with an earlier peak accepted under both readings.',
        'DESIGN.md section 4 C17'),
    'C18': (
        'differential property-based testing (Hypothesis): the same session re-run in-process, with a warm memoised data source, and in fresh interpreters under different PYTHONHASHSEED; digest equality',
        'Generated sessions biased to ordering leaks (same-instant universe entrants, tied momenta, 3-6 hash-diverse '
        'symbols): digest of history, equity and allocations (column order included) must be identical across two '
        'in-process runs, a data source that served another session, and persistent interpreters started with other '
        'string-hash seeds.',
        'Hash seeds 0-3 (quick) / 0-4 + one derived from VERIF_SEED (thorough); order ids excluded.',
        'DESIGN.md section 4 C18'),
    'C19': (
        'property-based testing (Hypothesis): membership predicate with inclusive boundary for universes, algebraic laws for optimisers, allocation/fill membership oracle for sessions',
        'Generated entry maps and query instants around each entry (dynamic and static universes), generated weight '
        'dicts and scales for both optimisers, and generated dynamic-universe sessions (entries on / one minute after '
        'a rebalance instant, before the start, after the end, None): allocation rows cover exactly {entry <= r}, no '
        'fill precedes the first such rebalance, never-members never appear.',
        'UTC timestamps; dense session markets with data before every entry.',
        'DESIGN.md section 4 C19'),
    'C10': (
        'property-based testing (Hypothesis) + exhaustive grid against exact-rational budget inequalities',
        'Generated direct calls of the long-only sizer on a real broker: non-negative whole quantities, q*p + fee <= '
        'normalised share of (1-buffer)*equity < (q+1)*p + fee, total <= budget, invalid inputs rejected with ValueError.',
        'Equity read from the broker; commission + tax <= 1; 1e-12 relative slack.',
        'DESIGN.md section 4 C10'),
    'C11': (
        'property-based testing (Hypothesis) + exhaustive grid against exact-rational sign/truncation/leverage inequalities',
        'Generated direct calls of the long/short sizer: whole quantities carrying the weight\'s sign, |q|*p <= '
        '|allocation after fees| and within one currency unit of the largest affordable, gross <= L*E*(1+f), invalid '
        'leverage / NaN price rejected.',
        'Equity read from the broker; commission + tax <= 1; 1e-12 relative slack.',
        'DESIGN.md section 4 C11'),
    'C12': (
        'property-based testing (Hypothesis) + exhaustive date sweep against an independent date-arithmetic calendar',
        'Generated (start,end,flags) ranges and a bounded exhaustive sweep; the emitted event list must equal a '
        'calendar rebuilt from datetime.date arithmetic and be strictly increasing; end<start must raise.',
        'Trusts datetime.date arithmetic and pandas Timestamp comparison; UTC-aware inputs with end time-of-day '
        '>= start time-of-day only; dates 1990-2040.',
        'DESIGN.md section 4 C12'),
    'C13': (
        'property-based testing (Hypothesis) + exhaustive date sweep against an independent date-arithmetic calendar',
        'Generated ranges x schedule kinds: each schedule must equal the date-arithmetic calendar (list equality, '
        'strictly increasing, 21:00/14:30 UTC) and every instant must be a clock event for the same range under all '
        'flag settings; buy-and-hold = start or next Monday; unknown weekdays rejected.',
        'UTC-aware inputs with end time-of-day >= start time-of-day; dates 1990-2040.',
        'DESIGN.md section 4 C13'),
    'C15': (
        'rule-based stateful testing (Hypothesis) with injected invalid requests; deep-snapshot equality oracle',
        'Generated histories with 30 kinds of invalid request injected after fills and with orders pending: each must '
        'raise the documented error type and leave master cash, portfolio cash, holdings, pending orders, history and '
        'the portfolio/queue key sets identical.',
        'Portfolio-internal clock not compared; broker clock never moved backwards; <= 60 steps.',
        'DESIGN.md section 4 C15'),
}

PENDING_REASON = 'check not yet built in this session (planned: property-based check, see DESIGN.md section 4)'


def main():
    props = [json.loads(l) for l in open(os.path.join(VERIF, 'properties.jsonl'))]
    hooks_commits = []
    checks, na = [], []
    for p in props:
        pid = p['id']
        if pid in CHECKS and os.path.exists(os.path.join(VERIF, 'checks')):
            tech, text, note, ref = CHECKS[pid]
            checks.append({
                'property_id': pid,
                'quick_cmd': './vcheck %s quick' % pid,
                'thorough_cmd': './vcheck %s thorough' % pid,
                'evidence_file': 'evidence/%s.json' % pid,
                'replay_cmd_template': './vcheck %s --replay {path}' % pid,
                'engine': 'vcheck',
                'level_claimed': {'category': 'exploration', 'text': text, 'design_ref': ref},
                'level_note': note,
                'technique': tech,
            })
        else:
            na.append({'property_id': pid, 'reason': PENDING_REASON})
    man = {
        'version': 1,
        'setup_cmd': './setup.sh',
        'hooks': {
            'guard': 'QSTRADER_VERIF',
            'enable': 'no source hooks are needed: checks import /repo\'s working tree directly and observe it '
                      'through public API and harness-side wrappers; QSTRADER_VERIF is reserved and unused',
            'baseline_off_cmd': 'cd /repo && /venv/bin/python -m pytest -q -p no:cacheprovider tests',
            'source_commits': hooks_commits,
            'add_only': True,
        },
        'engines': [{
            'name': 'vcheck', 'path': 'vcheck',
            'serves_properties': [c['property_id'] for c in checks],
            'kind_free_text': 'Hypothesis 6.168 property-based / rule-based stateful testing with explicit '
                              'reference oracles, sharded over processes; shrunk cases are JSON replay files',
        }],
        'checks': checks,
        'not_applicable': na,
        'notes': 'All checks: ./vcheck <ID> <quick|thorough>; VERIF_SEED selects the generator seed; exit 0 held, '
                 '1 VIOLATION, 2 harness error/inconclusive. KNOWN_FINDINGS.txt lists repaired defects (fixed:) '
                 'and recorded ones (KNOWN-FINDING:). seeded/ holds independently written breaking changes and '
                 'which checks catch them.',
    }
    if not na:
        del man['not_applicable']
    with open(os.path.join(VERIF, 'MANIFEST.json'), 'w') as f:
        json.dump(man, f, indent=1)
    print('MANIFEST.json: %d checks, %d not_applicable' % (len(checks), len(na)))


if __name__ == '__main__':
    main()
