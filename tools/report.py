#!/usr/bin/env python3
"""Writes mutants/RESULTS.md and seeded/README.md (which check catches which change) from the JSON results."""
import json
import os

VERIF = os.path.dirname(os.path.dirname(os.path.abspath(__file__)))


def mutants_md():
    path = os.path.join(VERIF, 'mutants', 'RESULTS.json')
    if not os.path.exists(path):
        return
    res = json.load(open(path))
    defs = {m['id']: m for m in json.load(open(os.path.join(VERIF, 'mutants', 'mutants.json')))}
    lines = ['# Sensitivity self-test: hand-written mutants', '',
             'Each mutant is a one- or few-line change to a scratch copy of `/repo` (`tools/mutate.py`, definitions in '
             '`mutants.json`). "suite" = does the unedited baseline suite still pass with the mutant; "fired" / '
             '"quiet" = quick-tier verdicts of the checks that were run against it (committed regression replays '
             'skipped, so this measures the generated search alone). Property-preserving mutants must fire nothing.',
             '', '| mutant | targets | suite passes | fired | quiet | as expected | note |', '|---|---|---|---|---|---|---|']
    n_ok = n = surv = 0
    for mid in sorted(res):
        r = res[mid]
        d = defs.get(mid, {})
        n += 1
        n_ok += 1 if r.get('ok') else 0
        if r.get('suite_passes'):
            surv += 1
        kind = ' (property-preserving)' if d.get('preserving') else ''
        lines.append('| %s | %s | %s | %s | %s | %s | %s%s |' % (
            mid, ' '.join(r.get('targets', [])), {True: 'yes', False: 'no', None: '?'}[r.get('suite_passes')],
            ' '.join(r.get('fired', [])) or '-', ' '.join(r.get('quiet', [])) or '-',
            'yes' if r.get('ok') else '**NO**', (d.get('note') or r.get('note', ''))[:160].replace('|', '/'), kind))
    lines.insert(2, '%d mutants recorded, %d behave as expected, %d of them survive the baseline suite.' % (n, n_ok, surv))
    lines.insert(3, '')
    open(os.path.join(VERIF, 'mutants', 'RESULTS.md'), 'w').write('\n'.join(lines) + '\n')
    return n, n_ok, surv


def seeded_md():
    d = os.path.join(VERIF, 'seeded')
    if not os.path.isdir(d):
        return
    lines = ['# Independently written breaking changes', '',
             'Each directory holds a change written by a fresh sub-agent that was given only the text of one property and '
             'its own scratch worktree (nothing from /verif): `patch.diff`, the agent\'s own demonstration `demo.py` (exit 0 '
             'on the clean tree, 1 with the change) and `meta.json`. Every change was re-confirmed here by '
             '`tools/seedcheck.py` in a fresh scratch worktree (demo 0 -> patch applies -> whole baseline suite passes -> '
             'demo 1) before being kept; the checks were then run against the patched scratch tree (`VERIF_REPO`), '
             'committed regression replays skipped. None of these changes is ever committed to /repo.', '',
             '| change | property | what it needs to manifest | quick-tier verdicts | first message of the target check |',
             '|---|---|---|---|---|']
    tot = caught = 0
    for name in sorted(os.listdir(d)):
        mp = os.path.join(d, name, 'meta.json')
        if not os.path.exists(mp):
            continue
        m = json.load(open(mp))
        res = m.get('results', {})
        checks = res.get('checks', {})
        prop = m.get('property')
        verdicts = []
        first = ''
        hit = False
        for pid in sorted(checks):
            vs = [r['verdict'] for r in checks[pid]]
            verdicts.append('%s:%s' % (pid, '/'.join(vs)))
            if pid == prop:
                hit = any(v == 'fired' for v in vs)
                first = next((r['first'] for r in checks[pid] if r['verdict'] == 'fired'), '')
        tot += 1
        caught += 1 if hit else 0
        lines.append('| %s | %s | %s | %s | %s |' % (
            name, prop, (m.get('needs') or '')[:260].replace('|', '/').replace('\n', ' '), ' '.join(verdicts),
            first[:200].replace('|', '/')))
    lines.insert(2, '%d confirmed changes, %d caught by the quick tier of the property they were written against.' % (tot, caught))
    lines.insert(3, '')
    open(os.path.join(d, 'README.md'), 'w').write('\n'.join(lines) + '\n')
    return tot, caught


if __name__ == '__main__':
    print('mutants:', mutants_md())
    print('seeded:', seeded_md())
