#!/usr/bin/env python3
"""
Confirms an independently written breaking change and measures which checks catch it.

    tools/seedcheck.py <seed_dir> <name> [--checks C01,C02 | --all] [--keep]

<seed_dir> holds patch.diff, demo.py, meta.json (written by a sub-agent in its own scratch worktree).  In a fresh
scratch worktree of /repo (outside /repo and /verif, removed afterwards) this tool verifies:
  1. demo.py exits 0 on the clean tree;
  2. the patch applies; the package imports; the whole baseline suite still passes;
  3. demo.py exits 1 with the patch;
then runs the requested quick checks with VERIF_REPO pointing at the patched scratch tree and records which fire.
Only a confirmed change is copied to /verif/seeded/<name>/ (patch.diff, demo.py, meta.json with the results).
"""
import argparse
import json
import os
import shutil
import subprocess
import sys
import time

VERIF = os.path.dirname(os.path.dirname(os.path.abspath(__file__)))
PY = '/venv/bin/python'
ALL = ['C%02d' % i for i in range(1, 20)]


def sh(cmd, cwd, env=None, timeout=1800):
    r = subprocess.run(cmd, cwd=cwd, env=env, capture_output=True, text=True, timeout=timeout)
    return r.returncode, (r.stdout + r.stderr)


def main():
    ap = argparse.ArgumentParser()
    ap.add_argument('seed_dir')
    ap.add_argument('name')
    ap.add_argument('--checks')
    ap.add_argument('--all', action='store_true')
    ap.add_argument('--tier', default='quick')
    ap.add_argument('--seeds', default='1')
    ap.add_argument('--update', action='store_true', help='re-run checks for an already stored seed')
    a = ap.parse_args()
    seed_dir = os.path.abspath(a.seed_dir)
    meta = json.load(open(os.path.join(seed_dir, 'meta.json')))
    prop = meta['property']
    checks = ALL if a.all else (a.checks.split(',') if a.checks else [prop])
    wt = '/tmp/seedchk_%s_%d' % (a.name, os.getpid())
    subprocess.run(['git', '-C', '/repo', 'worktree', 'add', '-q', '--detach', wt, 'HEAD'], check=True)
    res = {'confirmed': False}
    try:
        os.makedirs(os.path.join(wt, '_seed', 'x'))
        for f in ('patch.diff', 'demo.py'):
            shutil.copy(os.path.join(seed_dir, f), os.path.join(wt, '_seed', 'x', f))
        # a change whose lines were later touched by a fix in /repo carries a hand-merged version for the newer tree
        head = subprocess.run(['git', '-C', '/repo', 'rev-parse', '--short', 'HEAD'], capture_output=True, text=True).stdout.strip()
        for f in sorted(os.listdir(seed_dir)):
            if f.startswith('patch_on_') and f.endswith('.diff'):
                if subprocess.run(['git', '-C', '/repo', 'merge-base', '--is-ancestor', f[len('patch_on_'):-5], 'HEAD']).returncode == 0:
                    shutil.copy(os.path.join(seed_dir, f), os.path.join(wt, '_seed', 'x', 'patch.diff'))
        env = dict(os.environ, PYTHONDONTWRITEBYTECODE='1', MPLBACKEND='Agg')
        c0, out0 = sh([PY, '_seed/x/demo.py'], wt, env)
        res['demo_clean_exit'] = c0
        ca, outa = sh(['git', 'apply', '_seed/x/patch.diff'], wt)
        if ca != 0:
            # written against an earlier commit of /repo (before a later fix touched the same lines): a three-way
            # merge of the change onto the current tree
            ca, outa = sh(['git', 'apply', '--3way', '_seed/x/patch.diff'], wt)
            res['patch_applied_three_way'] = ca == 0
        res['patch_applies'] = ca == 0
        if ca != 0:
            print('patch does not apply:', outa[-500:])
        else:
            ct, outt = sh([PY, '-m', 'pytest', '-q', '-p', 'no:cacheprovider', 'tests'], wt, env)
            res['suite_passes'] = ct == 0
            res['suite_tail'] = outt.strip().split('\n')[-1][:200]
            c1, out1 = sh([PY, '_seed/x/demo.py'], wt, env)
            res['demo_patched_exit'] = c1
            res['demo_patched_tail'] = out1.strip()[-400:]
            res['confirmed'] = (c0 == 0 and ct == 0 and c1 == 1)
            print('%s: clean demo exit %s, suite %s (%s), patched demo exit %s -> %s' % (
                a.name, c0, 'passes' if ct == 0 else 'FAILS', res['suite_tail'], c1,
                'CONFIRMED' if res['confirmed'] else 'NOT CONFIRMED'))
            if res['confirmed']:
                res['checks'] = {}
                for pid in checks:
                    for sd in a.seeds.split(','):
                        env2 = dict(env, VERIF_REPO=wt, VERIF_SEED=sd, VERIF_SKIP_REPLAYS='1')
                        t0 = time.time()
                        cc, outc = sh([os.path.join(VERIF, 'vcheck'), pid, a.tier, '--no-evidence'], VERIF, env2, timeout=7200)
                        first = ''
                        for line in outc.split('\n'):
                            if line.startswith('  ') and ' part ' not in line and line.strip():
                                first = line.strip()[:300]
                                break
                        verdict = {0: 'quiet', 1: 'fired'}.get(cc, 'error')
                        res['checks'].setdefault(pid, []).append({'seed': int(sd), 'verdict': verdict, 'tier': a.tier,
                                                                  'secs': round(time.time() - t0, 1), 'first': first})
                        print('   %s seed=%s -> %-5s %5.1fs  %s' % (pid, sd, verdict, time.time() - t0, first[:200]))
                        if verdict == 'error':
                            print(outc[-1500:])
    finally:
        subprocess.run(['git', '-C', '/repo', 'worktree', 'remove', '--force', wt])
        shutil.rmtree(wt, ignore_errors=True)
    if res['confirmed']:
        dst = os.path.join(VERIF, 'seeded', a.name)
        os.makedirs(dst, exist_ok=True)
        for f in ('patch.diff', 'demo.py'):
            if os.path.abspath(os.path.join(seed_dir, f)) != os.path.join(dst, f):
                shutil.copy(os.path.join(seed_dir, f), os.path.join(dst, f))
        old = {}
        if os.path.exists(os.path.join(dst, 'meta.json')):
            old = json.load(open(os.path.join(dst, 'meta.json')))
        meta_out = dict(old)
        meta_out.update({k: v for k, v in meta.items() if k not in ('results',)})
        r_old = old.get('results', {})
        merged = dict(r_old)
        merged.update({k: v for k, v in res.items() if k != 'checks'})
        merged_checks = dict(r_old.get('checks', {}))
        merged_checks.update(res.get('checks', {}))
        merged['checks'] = merged_checks
        merged['what_was_run'] = ('fresh scratch worktree of /repo HEAD: demo.py on the clean tree (exit 0), git apply patch.diff, '
                                  'baseline suite (all pass), demo.py (exit 1), then ./vcheck <ID> quick with VERIF_REPO=<scratch> '
                                  'and committed regression replays skipped; worktree removed')
        meta_out['results'] = merged
        json.dump(meta_out, open(os.path.join(dst, 'meta.json'), 'w'), indent=1)
    return 0 if res['confirmed'] else 1


if __name__ == '__main__':
    sys.exit(main())
