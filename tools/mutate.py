#!/usr/bin/env python3
"""
Sensitivity self-test (not a registered check).

    tools/mutate.py [--suite] [--all-checks] [--tier quick] [--cases N] [MUTANT_ID ...]

For each mutant in mutants/mutants.json: copy /repo to a scratch dir outside /repo and /verif, apply the
textual replacement (or a patch file), optionally run the baseline suite there, run the target checks (or
all checks) with VERIF_REPO pointing at the scratch copy, record which fired, delete the scratch dir.
Results are appended to mutants/RESULTS.json.
"""
import argparse
import json
import os
import shutil
import subprocess
import sys
import tempfile
import time

VERIF = os.path.dirname(os.path.dirname(os.path.abspath(__file__)))
ALL = ['C%02d' % i for i in range(1, 20)]


def apply(m, root):
    if 'patch' in m:
        p = os.path.join(VERIF, m['patch'])
        r = subprocess.run(['git', 'apply', '--unsafe-paths', '--directory', root, p], cwd='/', capture_output=True, text=True)
        if r.returncode:
            r = subprocess.run(['patch', '-p1', '-d', root, '-i', p], capture_output=True, text=True)
            if r.returncode:
                raise RuntimeError('patch failed: ' + r.stdout + r.stderr)
        return
    edits = m['edits'] if 'edits' in m else [m]
    for e in edits:
        path = os.path.join(root, e['file'])
        s = open(path).read()
        n = s.count(e['old'])
        if n != e.get('count', 1):
            raise RuntimeError('%s: %r found %d times in %s' % (m['id'], e['old'], n, e['file']))
        s = s.replace(e['old'], e['new'])
        if e.get('pre'):
            s = e['pre'] + s
        open(path, 'w').write(s)


def run_suite(root):
    r = subprocess.run(['/venv/bin/python', '-m', 'pytest', '-q', '-x', '-p', 'no:cacheprovider', 'tests'],
                       cwd=root, capture_output=True, text=True)
    return r.returncode == 0


def run_check(pid, root, tier, cases, seed):
    env = dict(os.environ, VERIF_REPO=root, VERIF_SEED=str(seed), VERIF_SKIP_REPLAYS='1')
    cmd = [os.path.join(VERIF, 'vcheck'), pid, tier, '--no-evidence']
    if cases:
        cmd += ['--cases', str(cases)]
    t0 = time.time()
    r = subprocess.run(cmd, env=env, capture_output=True, text=True)
    first = ''
    for line in r.stdout.split('\n'):
        if line.startswith('  ') and 'part ' not in line:
            first = line.strip()[:300]
            break
    return r.returncode, round(time.time() - t0, 1), first, r.stdout[-1500:] + r.stderr[-1500:]


def main():
    ap = argparse.ArgumentParser()
    ap.add_argument('ids', nargs='*')
    ap.add_argument('--suite', action='store_true', help='also run the baseline suite on the mutant')
    ap.add_argument('--all-checks', action='store_true')
    ap.add_argument('--tier', default='quick')
    ap.add_argument('--cases', type=int)
    ap.add_argument('--seed', type=int, default=1)
    ap.add_argument('--file', default=os.path.join(VERIF, 'mutants', 'mutants.json'))
    ap.add_argument('-v', action='store_true')
    ap.add_argument('-j', type=int, default=1, help='mutants processed concurrently')
    ap.add_argument('--out', default=os.path.join(VERIF, 'mutants', 'RESULTS.json'))
    a = ap.parse_args()
    muts = json.load(open(a.file))
    if a.ids:
        muts = [m for m in muts if m['id'] in a.ids or any(m['id'].startswith(i) for i in a.ids)]
    implemented = [p for p in ALL if os.path.exists(os.path.join(VERIF, 'checks')) and any(
        f.startswith(p.lower() + '_') for f in os.listdir(os.path.join(VERIF, 'checks')))]
    def one(m):
        root = tempfile.mkdtemp(prefix='vmut_', dir='/tmp')
        try:
            shutil.rmtree(root)
            shutil.copytree('/repo', root, ignore=shutil.ignore_patterns('.git', '__pycache__', '*.egg-info'))
            apply(m, root)
            rec = {'id': m['id'], 'targets': m['targets'], 'note': m.get('note', '')}
            if a.suite:
                rec['suite_passes'] = run_suite(root)
            checks = implemented if a.all_checks else [t for t in m['targets'] if t in implemented]
            rec['fired'], rec['quiet'], rec['error'] = [], [], []
            rec['first'] = {}
            for pid in checks:
                code, secs, first, tail = run_check(pid, root, a.tier, a.cases, a.seed)
                key = {0: 'quiet', 1: 'fired'}.get(code, 'error')
                rec[key].append(pid)
                if key == 'fired':
                    rec['first'][pid] = first[:200]
                print('%-32s %s -> %-5s %5.1fs  %s' % (m['id'], pid, key, secs, first), flush=True)
                if a.v or key == 'error':
                    print(tail)
            exp_quiet = m.get('preserving', False)
            rec['ok'] = (not rec['fired']) if exp_quiet else (
                all(t in rec['fired'] for t in m['targets'] if t in checks) and
                not any(t in rec['fired'] for t in m.get('quiet_in', [])))
            return rec
        finally:
            shutil.rmtree(root, ignore_errors=True)

    def safe(m):
        try:
            return one(m)
        except Exception as e:                                   # noqa  (e.g. a mutant whose text no longer applies)
            print('%-32s could not be applied/run: %s' % (m['id'], e), flush=True)
            return {'id': m['id'], 'targets': m['targets'], 'note': m.get('note', ''), 'fired': [], 'quiet': [],
                    'error': ['apply'], 'first': {}, 'ok': False}

    if a.j > 1:
        from multiprocessing.pool import ThreadPool
        with ThreadPool(a.j) as pool:
            results = pool.map(safe, muts, chunksize=1)
    else:
        results = [safe(m) for m in muts]
    out = a.out
    old = json.load(open(out)) if os.path.exists(out) else {}
    for r in results:
        key = r['id']
        prev = old.get(key, {})
        if not a.all_checks and prev:
            # merge: keep other checks' earlier verdicts
            for k in ('fired', 'quiet', 'error'):
                keep = [p for p in prev.get(k, []) if p not in r['fired'] + r['quiet'] + r['error']]
                r[k] = sorted(set(r[k] + keep))
            if 'suite_passes' not in r and 'suite_passes' in prev:
                r['suite_passes'] = prev['suite_passes']
        old[key] = r
    json.dump(old, open(out, 'w'), indent=1, sort_keys=True)
    bad = [r['id'] for r in results if not r['ok']]
    print('%d mutants, %d not as expected: %s' % (len(results), len(bad), bad))


if __name__ == '__main__':
    main()
