"""Access to the code under test (imported from $VERIF_REPO, default /repo) and harness-side wrappers."""
import os
import sys
import types

REPO = os.path.abspath(os.environ.get('VERIF_REPO', '/repo'))
_NS = None


def load():
    """Namespace with the qstrader classes the checks use; imported once per process from REPO."""
    global _NS
    if _NS is not None:
        return _NS
    if sys.path[0] != REPO:
        sys.path.insert(0, REPO)
    import qstrader
    src = os.path.abspath(qstrader.__file__)
    if not src.startswith(REPO + os.sep):
        raise RuntimeError('qstrader imported from %s, expected %s' % (src, REPO))
    from qstrader import settings
    settings.set_print_events(False)
    q = types.SimpleNamespace()
    q.settings = settings
    from qstrader.simulation.daily_bday import DailyBusinessDaySimulationEngine
    from qstrader.simulation.event import SimulationEvent
    from qstrader.system.rebalance.weekly import WeeklyRebalance
    from qstrader.system.rebalance.daily import DailyRebalance
    from qstrader.system.rebalance.end_of_month import EndOfMonthRebalance
    from qstrader.system.rebalance.buy_and_hold import BuyAndHoldRebalance
    from qstrader.broker.simulated_broker import SimulatedBroker
    from qstrader.broker.portfolio.portfolio import Portfolio
    from qstrader.broker.portfolio.position import Position
    from qstrader.broker.portfolio.position_handler import PositionHandler
    from qstrader.broker.portfolio.portfolio_event import PortfolioEvent
    from qstrader.broker.transaction.transaction import Transaction
    from qstrader.broker.fee_model.percent_fee_model import PercentFeeModel
    from qstrader.broker.fee_model.zero_fee_model import ZeroFeeModel
    from qstrader.exchange.simulated_exchange import SimulatedExchange
    from qstrader.execution.order import Order
    from qstrader.execution.execution_handler import ExecutionHandler
    from qstrader.data.daily_bar_csv import CSVDailyBarDataSource
    from qstrader.data.backtest_data_handler import BacktestDataHandler
    from qstrader.asset.equity import Equity
    from qstrader.asset.universe.static import StaticUniverse
    from qstrader.asset.universe.dynamic import DynamicUniverse
    from qstrader.alpha_model.alpha_model import AlphaModel
    from qstrader.alpha_model.fixed_signals import FixedSignalsAlphaModel
    from qstrader.alpha_model.single_signal import SingleSignalAlphaModel
    from qstrader.portcon.pcm import PortfolioConstructionModel
    from qstrader.portcon.optimiser.fixed_weight import FixedWeightPortfolioOptimiser
    from qstrader.portcon.optimiser.equal_weight import EqualWeightPortfolioOptimiser
    from qstrader.portcon.order_sizer.dollar_weighted import DollarWeightedCashBufferedOrderSizer
    from qstrader.portcon.order_sizer.long_short import LongShortLeveragedOrderSizer
    from qstrader.signals.buffer import AssetPriceBuffers
    from qstrader.signals.momentum import MomentumSignal
    from qstrader.signals.sma import SMASignal
    from qstrader.signals.vol import VolatilitySignal
    from qstrader.signals.signals_collection import SignalsCollection
    from qstrader.trading.backtest import BacktestTradingSession
    from qstrader.system.qts import QuantTradingSystem
    for k, v in list(locals().items()):
        if isinstance(v, type):
            setattr(q, k, v)
    _NS = q
    return q


def clear_caches():
    q = load()
    for name in ('get_bid', 'get_ask'):
        f = getattr(q.CSVDailyBarDataSource, name)
        if hasattr(f, 'cache_clear'):
            f.cache_clear()
