"""Persistent worker interpreter for C18: reads one JSON case per line on stdin, writes one JSON digest per line."""
import json
import sys


def main():
    from checks.c18_determinism import session_digest
    out = sys.stdout
    for line in sys.stdin:
        line = line.strip()
        if not line:
            continue
        try:
            case = json.loads(line)
            res = {'ok': True, 'digest': session_digest(case, fresh=True)}
        except Exception as e:                                    # noqa
            import traceback
            res = {'ok': False, 'error': traceback.format_exc()[-2000:]}
        out.write(json.dumps(res) + '\n')
        out.flush()


if __name__ == '__main__':
    main()
