"""G-config: Hypothesis strategies for session configurations (plain JSON)."""
import datetime as D

from hypothesis import strategies as st

from vlib import cal, gen, market

session_dates = st.one_of(
    st.dates(min_value=D.date(1995, 1, 1), max_value=D.date(2039, 6, 1)),
    st.sampled_from(gen.EDGE_DATES).filter(lambda d: D.date(1995, 1, 1) <= d <= D.date(2039, 6, 1)),
)


def _r(x, n=4):
    return float('%.*g' % (n, x))


fee_st = st.one_of(
    st.none(),
    st.tuples(st.floats(0, 0.02), st.floats(0, 0.02)).map(lambda t: [_r(t[0], 3), _r(t[1], 3)]),
    st.sampled_from([[0.001, 0.005], [0.002, 0.0], [0.0, 0.005]]),
)
cash_st = st.one_of(st.sampled_from([1e6, 1e4, 1e3, 500.0]), gen.logu(1e3, 1e8))
buffer_st = st.one_of(st.sampled_from([0.05, 0.0, 0.01, 0.05, 0.25, 1.0]), st.floats(0, 0.6).map(lambda x: _r(x, 3)))
leverage_st = st.one_of(st.sampled_from([1.0, 2.0, 0.5]), st.floats(0.2, 5).map(lambda x: _r(x, 3)))


@st.composite
def schedule(draw, allow_bah=True):
    kinds = ['daily', 'weekly', 'weekly', 'end_of_month'] + (['buy_and_hold'] if allow_bah else [])
    kind = draw(st.sampled_from(kinds))
    out = {'rebalance': kind}
    if kind == 'weekly':
        wd = draw(st.sampled_from(cal.WEEKDAYS))
        out['weekday'] = wd if draw(st.booleans()) else wd.lower()
    elif draw(st.sampled_from([False, False, False, True])):
        # a weekday keyword left in place although the frequency is not weekly: it has no meaning there
        out['spare_weekday'] = draw(st.sampled_from(cal.WEEKDAYS))
    return out


@st.composite
def sizing(draw):
    if draw(st.booleans()):
        return {'long_only': True, 'buffer': draw(buffer_st), 'leverage': 1.0}
    return {'long_only': False, 'buffer': 0.0, 'leverage': draw(leverage_st)}


def weight_value(draw, long_only):
    mag = draw(st.one_of(st.floats(0.05, 1.0).map(lambda x: _r(x, 3)), st.sampled_from([1.0, 0.5, 2.0, 3.0, 0.0]),
                         st.floats(0.05, 1.0).map(lambda x: _r(x, 2)),
                         st.sampled_from([1.0 / 3.0, 0.5172413, 0.123456789])))       # incl. weights with many decimals
    if long_only or draw(st.booleans()):
        return mag
    return -mag


@st.composite
def window(draw, min_days=3, max_days=75, start_tods=((0, 0, 0), (14, 30, 0))):
    d0 = draw(session_dates)
    n = draw(st.one_of(st.integers(min_days, min(20, max_days)), st.integers(min_days, max_days),
                       st.integers(min(25, max_days), max_days)))
    if draw(st.sampled_from([False, False, False, True])):
        # the END falls on an edge date (Friday before a weekend month end, 31 Dec, 29 Feb, ...)
        d1 = draw(session_dates.filter(lambda d: d > D.date(1995, 6, 1)))
        d0 = d1 - D.timedelta(days=n)
    d1 = d0 + D.timedelta(days=n)
    tod = draw(st.sampled_from(list(start_tods)))
    end_tod = [23, 59, 0]
    if tuple(tod) == (0, 0, 0) and draw(st.sampled_from([False, False, False, True])):
        end_tod = [0, 0, 0]          # a plain date as the end: the last day is still simulated in full
    return d0, d1, [d0.year, d0.month, d0.day] + list(tod), [d1.year, d1.month, d1.day] + end_tod


def instants(sched, start, end):
    """Rebalance instants of a schedule dict, from the independent calendar (as [y,m,d,h,mi,s] lists)."""
    d0, d1 = cal.date3(start), cal.date3(end)
    kind = sched['rebalance']
    if kind == 'buy_and_hold':
        d = d0
        while d.weekday() > 4:
            d += D.timedelta(days=1)
        return [[d.year, d.month, d.day] + list(start[3:])] if d <= d1 else []
    wd = cal.WEEKDAYS.index(sched['weekday'].upper()) if kind == 'weekly' else None
    return [[d.year, d.month, d.day, 21, 0, 0] for d in cal.schedule_dates(kind, d0, d1, wd)]


def _shift(v, minutes=0, days=0):
    t = cal.ts6(v) + D.timedelta(minutes=minutes, days=days)
    return [t.year, t.month, t.day, t.hour, t.minute, t.second]


@st.composite
def moment(draw, start, end, inst, kinds):
    """A burn-in / entry instant of a labelled class; returns (label, value-or-None)."""
    k = draw(st.sampled_from(kinds))
    if k in ('on', 'after1m') and not inst:
        k = 'mid'
    if k == 'none':
        return k, None
    if k == 'before':
        return k, _shift(start, days=-draw(st.integers(0, 5)))
    if k == 'start':
        return k, list(start)
    if k == 'on':
        return k, list(draw(st.sampled_from(inst)))
    if k == 'after1m':
        return k, _shift(draw(st.sampled_from(inst)), minutes=1)
    if k == 'after_end':
        return k, _shift(end, days=draw(st.integers(1, 3)))
    n = (cal.date3(end) - cal.date3(start)).days
    d = cal.date3(start) + D.timedelta(days=draw(st.integers(0, max(n, 0))))
    tod = draw(st.sampled_from([(0, 0, 0), (14, 30, 0), (21, 0, 0), (22, 15, 0), (9, 0, 0)]))
    return 'mid', [d.year, d.month, d.day] + list(tod)


@st.composite
def alpha_cfg(draw, kinds, assets, long_only):
    k = draw(st.sampled_from(kinds))
    if k == 'fixed':
        keys = [a for a in assets if draw(st.sampled_from([True, True, True, False]))]
        return {'kind': 'fixed', 'weights': {a: weight_value(draw, long_only) for a in keys}}
    if k == 'hist':
        return {'kind': 'hist', 'lookback': draw(st.sampled_from([2, 5, 9, 20])), 'via_handler': draw(st.sampled_from([True, True, False])),
                'tz': draw(st.sampled_from(['Asia/Tokyo', None, 'Asia/Tokyo', 'America/New_York']))}
    if k == 'cycle':
        n = draw(st.sampled_from([2, 2, 3]))
        return {'kind': 'cycle', 'vectors': [{a: weight_value(draw, long_only) for a in assets} for _ in range(n)]}
    if k == 'single':
        s = draw(st.sampled_from([1.0, 1.0, 0.5, 2.0]))
        return {'kind': 'single', 'signal': s if long_only or draw(st.booleans()) else -s}
    if k == 'topn':
        return {'kind': 'topn', 'lookback': draw(st.integers(1, 5)), 'top': draw(st.integers(1, 3))}
    if k == 'sma':
        fast = draw(st.integers(1, 4))
        return {'kind': 'sma', 'fast': fast, 'slow': fast + draw(st.integers(1, 5))}
    return {'kind': 'invvol', 'lookback': draw(st.integers(2, 6))}


@st.composite
def full_config(draw, names, start, end, alpha_kinds=('fixed', 'single', 'topn', 'sma', 'invvol', 'cycle', 'hist', 'hist'),
                dynamic=True, burn=True, sched=None, entry_kinds=('before', 'before', 'start', 'start', 'on', 'on', 'after1m', 'after1m', 'mid', 'mid', 'after_end', 'none'),
                burn_kinds=('on', 'after1m', 'mid', 'none', 'on', 'after1m', 'mid', 'none', 'before', 'after_end', 'none')):
    assets = ['EQ:' + n for n in names]
    sched = sched or draw(schedule(allow_bah=tuple(start[3:]) == (14, 30, 0)))
    siz = draw(sizing())
    inst = instants(sched, start, end)
    cfg = {'start': start, 'end': end, 'fee': draw(fee_st), 'cash': draw(cash_st), 'burn_in': None,
           'adjust': draw(st.sampled_from([True, True, False]))}
    cfg.update(sched)
    cfg.update(siz)
    labels = []
    if dynamic and draw(st.booleans()):
        dates = {}
        same = draw(moment(start, end, inst, entry_kinds))
        for a in assets:
            lab, v = same if draw(st.sampled_from([False, False, True])) else draw(moment(start, end, inst, entry_kinds))
            dates[a] = v
            labels.append('entry_' + lab)
        cfg['universe'] = {'kind': 'dynamic', 'dates': dates}
    else:
        cfg['universe'] = {'kind': 'static', 'assets': assets}
    if burn:
        lab, v = draw(moment(start, end, inst, burn_kinds))
        cfg['burn_in'] = v
        labels.append('burn_' + lab)
    cfg['alpha'] = draw(alpha_cfg(list(alpha_kinds), assets, siz['long_only']))
    pid = draw(st.sampled_from([None, None, None, 'main', '7', 'zz-2', 'master']))      # ids are free text (incl. the account's own word)
    if pid:
        cfg['portfolio_id'] = pid
        labels.append('custom_portfolio_id')
    if draw(st.sampled_from([False, False, False, True])):
        # a settings dictionary shared between strategies: the sizing keyword of the other mode is passed too (unused)
        cfg['spare_sizing_kw'] = True
        labels.append('sizing_keyword_of_the_other_mode_passed_too')
    return cfg, sorted(set(labels))


def add_watched(draw, cfg, mk, names, d0, ndays, seed):
    """Adds a symbol that is only watched by the signals (never traded) and whose file starts a few days into the
    session: listed FIRST in a static signal universe, so on those days it has no quote while the others do."""
    import datetime as D
    from vlib import market
    k = draw(st.integers(2, 8))
    rows = market.build_rows(seed + 4242, d0 + D.timedelta(days=k), max(3, ndays - k + 2))
    if not rows:
        return False
    mk['WCH'] = rows
    cfg['signal_universe'] = {'kind': 'static', 'assets': ['EQ:WCH'] + ['EQ:' + n for n in names]}
    if not cfg.get('signals'):
        cfg['signals'] = {'momentum': [2], 'sma': [3]}
    return True
