"""G-config: Hypothesis strategies for session configurations (plain JSON)."""
import datetime as D

from hypothesis import strategies as st

from vlib import cal, gen, market

session_dates = st.one_of(
    st.dates(min_value=D.date(1995, 1, 1), max_value=D.date(2039, 6, 1)),
    st.sampled_from(gen.EDGE_DATES).filter(lambda d: D.date(1995, 1, 1) <= d <= D.date(2039, 6, 1)),
)


def _r(x, n=4):
    return float('%.*g' % (n, x))


fee_st = st.one_of(
    st.none(),
    st.tuples(st.floats(0, 0.02), st.floats(0, 0.02)).map(lambda t: [_r(t[0], 3), _r(t[1], 3)]),
    st.sampled_from([[0.001, 0.005], [0.002, 0.0], [0.0, 0.005]]),
)
cash_st = st.one_of(st.sampled_from([1e6, 1e4, 1e3, 500.0]), gen.logu(1e3, 1e8))
buffer_st = st.one_of(st.sampled_from([0.05, 0.0, 0.01, 0.05, 0.25, 1.0]), st.floats(0, 0.6).map(lambda x: _r(x, 3)))
leverage_st = st.one_of(st.sampled_from([1.0, 2.0, 0.5]), st.floats(0.2, 5).map(lambda x: _r(x, 3)))


@st.composite
def schedule(draw, allow_bah=True):
    kinds = ['daily', 'weekly', 'weekly', 'end_of_month'] + (['buy_and_hold'] if allow_bah else [])
    kind = draw(st.sampled_from(kinds))
    out = {'rebalance': kind}
    if kind == 'weekly':
        wd = draw(st.sampled_from(cal.WEEKDAYS))
        out['weekday'] = wd if draw(st.booleans()) else wd.lower()
    return out


@st.composite
def sizing(draw):
    if draw(st.booleans()):
        return {'long_only': True, 'buffer': draw(buffer_st), 'leverage': 1.0}
    return {'long_only': False, 'buffer': 0.0, 'leverage': draw(leverage_st)}


def weight_value(draw, long_only):
    mag = draw(st.one_of(st.floats(0.05, 1.0).map(lambda x: _r(x, 3)), st.sampled_from([1.0, 0.5, 2.0, 3.0, 0.0]),
                         st.floats(0.05, 1.0).map(lambda x: _r(x, 2))))
    if long_only or draw(st.booleans()):
        return mag
    return -mag


@st.composite
def window(draw, min_days=3, max_days=75, start_tods=((0, 0, 0), (14, 30, 0))):
    d0 = draw(session_dates)
    n = draw(st.one_of(st.integers(min_days, min(20, max_days)), st.integers(min_days, max_days),
                       st.integers(min(25, max_days), max_days)))
    d1 = d0 + D.timedelta(days=n)
    tod = draw(st.sampled_from(list(start_tods)))
    return d0, d1, [d0.year, d0.month, d0.day] + list(tod), [d1.year, d1.month, d1.day, 23, 59, 0]
