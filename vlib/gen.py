"""Shared Hypothesis strategies.  Every strategy yields plain JSON data."""
import calendar
import datetime as D

from hypothesis import strategies as st


def _edge_dates():
    out = []
    for y in range(1990, 2041):
        for m in range(1, 13):
            last = D.date(y, m, calendar.monthrange(y, m)[1])
            if last.weekday() >= 5:                     # month end on a weekend
                out.append(last)
                out.append(last - D.timedelta(days=last.weekday() - 4))   # the Friday before
                out.append(last + D.timedelta(days=7 - last.weekday()))   # the Monday after
        if calendar.isleap(y):
            out += [D.date(y, 2, 28), D.date(y, 2, 29), D.date(y, 3, 1)]
        out += [D.date(y, 12, 31), D.date(y, 1, 1)]
    return out


EDGE_DATES = _edge_dates()

dates = st.one_of(
    st.dates(min_value=D.date(1990, 1, 1), max_value=D.date(2040, 12, 31)),
    st.dates(min_value=D.date(1930, 1, 1), max_value=D.date(1969, 12, 31)),      # before the Unix epoch too
    st.sampled_from(EDGE_DATES),
    # the days of one week, so that every weekday alignment is common
    st.integers(0, 6).map(lambda k: D.date(2021, 3, 1) + D.timedelta(days=k)),
)

durations = st.one_of(st.integers(0, 8), st.integers(9, 70), st.integers(71, 800))
short_durations = st.one_of(st.integers(0, 8), st.integers(9, 70))

tod_any = st.tuples(st.integers(0, 23), st.integers(0, 59), st.integers(0, 59))
tod_start = st.one_of(st.sampled_from([(0, 0, 0), (14, 30, 0)]), tod_any)


@st.composite
def ranges(draw, dur=durations, start_tod=tod_start):
    """(start[6], end[6]) with end time-of-day >= start time-of-day (the documented precondition)."""
    d0 = draw(dates)
    n = draw(dur)
    d1 = d0 + D.timedelta(days=n)
    t0 = draw(start_tod)
    t1 = draw(st.one_of(st.just((23, 59, 0)), st.just(t0), tod_any))
    if tuple(t1) < tuple(t0):        # the end's time of day is never before the start's (the stated domain)
        t1 = t0
    return [d0.year, d0.month, d0.day] + list(t0), [d1.year, d1.month, d1.day] + list(t1)


def range_classes(start, end):
    """Labels describing a (start, end) range - used by the class histograms."""
    d0, d1 = D.date(*start[:3]), D.date(*end[:3])
    n = (d1 - d0).days
    bd = [d0 + D.timedelta(days=i) for i in range(n + 1) if (d0 + D.timedelta(days=i)).weekday() < 5]
    out = []
    if n == 0:
        out.append('single_day')
    if not bd:
        out.append('no_business_day')
    if len(bd) >= 2 and n >= 5:
        out.append('spans_weekend')
    if d0.weekday() >= 5:
        out.append('start_on_weekend')
    if d1.weekday() >= 5:
        out.append('end_on_weekend')
    if (d0.year, d0.month) != (d1.year, d1.month):
        out.append('crosses_month')
    if d0.year != d1.year:
        out.append('crosses_year')
    for y in range(d0.year, d1.year + 1):
        if calendar.isleap(y) and d0 <= D.date(y, 2, 29) <= d1:
            out.append('contains_leap_day')
            break
    if tuple(start[3:]) not in ((0, 0, 0),):
        out.append('start_not_midnight')
    if n > 70:
        out.append('long_range')
    return out


# ------------------------------------------------------------------------------------------------
# numbers

def logu(lo, hi):
    import math
    return st.floats(math.log10(lo), math.log10(hi)).map(lambda e: float('%.6g' % (10.0 ** e)))


prices = st.one_of(logu(0.01, 1e4), st.sampled_from([0.01, 0.5, 1.0, 1.5, 100.0]))
small_qty = st.sampled_from([1, 1, 1, 2, 3, 5, 10, 100])
