"""Builds and runs a BacktestTradingSession from a JSON config; records everything the checks compare."""
import importlib.util
import os

import numpy as np
import pandas as pd

from vlib import cal, kit, market
from vlib.sut import REPO, load

_TAA = None


def taa_module():
    """examples/momentum_taa.py of the tree under test (its TopNMomentumAlphaModel is the documented ranking model)."""
    global _TAA
    if _TAA is None:
        spec = importlib.util.spec_from_file_location('vq_momentum_taa', os.path.join(REPO, 'examples', 'momentum_taa.py'))
        _TAA = importlib.util.module_from_spec(spec)
        spec.loader.exec_module(_TAA)
    return _TAA


class RecordingAlpha(object):
    """Wraps an alpha model: logs every call time and (optionally) probes signals at that instant."""

    _OWN = ('inner', 'calls', 'outputs', 'probes', 'probe')

    def __getattr__(self, name):
        # transparent: every other attribute (universe, signal, ...) is the wrapped model's
        if name in RecordingAlpha._OWN:
            raise AttributeError(name)
        return getattr(self.__dict__['inner'], name)

    def __setattr__(self, name, value):
        if name in RecordingAlpha._OWN:
            object.__setattr__(self, name, value)
        else:
            setattr(self.inner, name, value)

    def __init__(self, inner, probe=None):
        self.inner = inner
        self.calls = []
        self.outputs = []
        self.probes = []
        self.probe = probe

    def __call__(self, dt):
        self.calls.append(dt)
        if self.probe is not None:
            self.probes.append((dt, self.probe(dt)))
        w = self.inner(dt)
        self.outputs.append(dict(w))         # what the model said, before anybody downstream can touch the dict
        return w


class SMATrendAlpha(object):
    """Harness alpha in the style of examples/momentum_taa.py: weight 1 where SMA(fast) > SMA(slow)."""

    def __init__(self, signals, fast, slow, universe):
        self.signals, self.fast, self.slow, self.universe = signals, fast, slow, universe

    def __call__(self, dt):
        assets = self.universe.get_assets(dt)
        # one dictionary, kept sorted by asset and refreshed in place at every rebalance (the caller gets the same
        # object each time, as a model that avoids allocations would do)
        if not hasattr(self, '_w') or sorted(self._w) != sorted(assets):
            self._w = {a: 0.0 for a in sorted(assets)}
        w = self._w
        for a in w:
            w[a] = 0.0
        if self.signals.warmup >= self.slow:
            for a in self.signals['sma'].assets:
                if a in w and self.signals['sma'](a, self.fast) > self.signals['sma'](a, self.slow):
                    w[a] = 1.0
        return w


class InvVolAlpha(object):
    def __init__(self, signals, lookback, universe, short=False):
        self.signals, self.lookback, self.universe, self.short = signals, lookback, universe, short

    def __call__(self, dt):
        assets = self.universe.get_assets(dt)
        w = {a: 0.0 for a in assets}
        if self.signals.warmup >= 2:
            for i, a in enumerate(self.signals['vol'].assets):
                if a in w:
                    v = self.signals['vol'](a, self.lookback)
                    x = 1.0 / v if v > 0 else 0.0
                    w[a] = -x if (self.short and i % 2) else x
        return w


class CycleAlpha(object):
    """Harness alpha whose weights change from rebalance to rebalance and come back: vectors[i % len] at call i."""

    def __init__(self, vectors):
        self.vectors, self.i = [dict(v) for v in vectors], 0

    def __call__(self, dt):
        w = dict(self.vectors[self.i % len(self.vectors)])
        self.i += 1
        return w


class HistCloseAlpha(object):
    """Harness alpha reading the data source's public range query: weight 1 where the last close of the trailing
    `lookback` calendar days (up to the rebalance instant) is above the first one, 0.5 with a single close, plus 0.5
    for the asset with the highest closing level."""

    def __init__(self, ds, universe, lookback, dh=None, tz=None):
        self.ds, self.universe, self.lookback, self.dh, self.tz = ds, universe, lookback, dh, tz

    def __call__(self, dt):
        assets = self.universe.get_assets(dt)
        w = {a: 0.0 for a in assets}
        if not assets:
            return w
        lo, hi = dt - pd.Timedelta(days=self.lookback), dt
        if self.tz:
            lo, hi = lo.tz_convert(self.tz), hi.tz_convert(self.tz)       # the same instants, written in another zone
        df = None
        if self.dh is not None:
            # the handler's range query first (it refuses with TypeError on this code base), else the source's own
            try:
                df = self.dh.get_assets_historical_range_close_price(lo, hi, list(assets))
            except TypeError:
                df = None
        if df is None:
            df = self.ds.get_assets_historical_closes(lo, hi, list(assets))
        lasts = {}
        for a in df.columns:
            col = df[a].dropna()
            if len(col):
                lasts[a] = float(col.iloc[-1])
            if len(col) == 1:
                w[a] = 0.5
            elif len(col) >= 2 and col.iloc[-1] > col.iloc[0]:
                w[a] = 1.0
        if lasts:
            # ... and the asset with the highest (raw) closing level gets half a unit more: levels matter too
            top = max(sorted(lasts), key=lambda a_: lasts[a_])
            w[top] += 0.5
        return w


class WindowUniverse(object):
    """User-defined universe (the documented interface is get_assets(dt)) whose members enter AND leave."""

    def __init__(self, spans):
        self.spans = spans

    def get_assets(self, dt):
        return [a for a, (lo, hi) in self.spans.items() if lo is not None and lo <= dt and (hi is None or dt < hi)]


def build_universe(q, ucfg):
    if ucfg['kind'] == 'window':
        return WindowUniverse({a: (None if lo is None else cal.ts6(lo), None if hi is None else cal.ts6(hi))
                               for a, (lo, hi) in ucfg['spans'].items()})
    if ucfg['kind'] == 'static':
        return q.StaticUniverse(list(ucfg['assets']))
    return q.DynamicUniverse({a: (None if v is None else cal.ts6(v)) for a, v in ucfg['dates'].items()})


class Run(object):
    """Outcome of one session run."""
    pass


def run_session(cfg, csv_path, symbols, data_source=None, probe_signals=False, hooks=None, data_handler=None,
                shared=None, own_handler=False):
    """
    cfg keys: start, end, rebalance, weekday, long_only, buffer, leverage, fee, cash, burn_in, universe, alpha, adjust.
    Returns a Run with fills, history, equity_curve, allocations, calls, exception info.
    """
    q = load()
    start, end = cal.ts6(cfg['start']), cal.ts6(cfg['end'])
    shared = shared or {}
    universe = shared.get('universe') or build_universe(q, cfg['universe'])
    # the alpha model may be driven by a universe of its own (e.g. dated entries) while the session trades a wider one
    alpha_universe = build_universe(q, cfg['alpha_universe']) if cfg.get('alpha_universe') else universe
    ds = data_source or q.CSVDailyBarDataSource(csv_path, q.Equity, adjust_prices=cfg.get('adjust', True),
                                                csv_symbols=list(symbols))
    dh = data_handler or q.BacktestDataHandler(universe, data_sources=[ds])
    r_dh = dh
    acfg = cfg['alpha']
    signals = None
    sig = {}
    # signals may watch a universe of their own (a benchmark, assets not traded yet) - wider than the session's
    sig_universe = build_universe(q, cfg['signal_universe']) if cfg.get('signal_universe') else universe
    if acfg['kind'] in ('topn', 'sma', 'invvol') or cfg.get('signals'):
        for name, lbs in (cfg.get('signals') or {}).items():
            # ('momentum_b': a second, separate momentum signal configured like the first - a risk-side copy, say)
            cls = {'momentum': q.MomentumSignal, 'momentum_b': q.MomentumSignal, 'sma': q.SMASignal, 'vol': q.VolatilitySignal}[name]
            # (a signal may be declared with a later start of its own: it is fed from the session's first close all the same)
            # (the lookback list is the configuration's own list object, as when settings are defined once and reused)
            sig[name] = cls(cal.ts6(cfg['signal_start']) if cfg.get('signal_start') else start, sig_universe, lbs)
        # (the lookback lists live in the configuration and are the same objects whenever the configuration is run again)
        if acfg['kind'] == 'topn' and 'momentum' not in sig:
            sig['momentum'] = q.MomentumSignal(start, universe, acfg.setdefault('lookback_list', [acfg['lookback']]))
        if acfg['kind'] == 'sma' and 'sma' not in sig:
            sig['sma'] = q.SMASignal(start, universe, acfg.setdefault('lookback_list', [acfg['fast'], acfg['slow']]))
        if acfg['kind'] == 'invvol' and 'vol' not in sig:
            sig['vol'] = q.VolatilitySignal(start, universe, acfg.setdefault('lookback_list', [acfg['lookback']]))
        sig_dh = dh
        if cfg.get('signals_feed') == 'other_adjustment':
            # the signals read a feed of their own: the same files with the opposite price adjustment
            sig_dh = q.BacktestDataHandler(universe, data_sources=[q.CSVDailyBarDataSource(
                csv_path, q.Equity, adjust_prices=not cfg.get('adjust', True), csv_symbols=list(symbols))])
        signals = q.SignalsCollection(sig, sig_dh)
        if cfg.get('prewarm_days'):
            # the collection already holds the closes of the business days before the session (driven directly, or
            # left from a session over the preceding days): the session carries on from there
            import datetime as D_
            d_ = start.date() - D_.timedelta(days=1)
            pre_ = []
            while len(pre_) < cfg['prewarm_days']:
                if d_.weekday() < 5:
                    pre_.append(d_)
                d_ -= D_.timedelta(days=1)
            for d_ in reversed(pre_):
                signals.update(cal.ts(d_, 21, 0))
    if acfg['kind'] in ('fixed', 'single') and shared.get('alpha_inner') is not None:
        alpha = shared['alpha_inner']          # the very object an earlier session used
    elif acfg['kind'] == 'fixed':
        alpha = q.FixedSignalsAlphaModel(dict(acfg['weights']))
    elif acfg['kind'] == 'cycle':
        alpha = CycleAlpha(acfg['vectors'])
    elif acfg['kind'] == 'hist':
        alpha = HistCloseAlpha(ds, universe, acfg['lookback'], dh=dh if acfg.get('via_handler') else None, tz=acfg.get('tz'))
    elif acfg['kind'] == 'single':
        alpha = q.SingleSignalAlphaModel(alpha_universe, signal=acfg['signal'])
    elif acfg['kind'] == 'topn':
        alpha = taa_module().TopNMomentumAlphaModel(signals, acfg['lookback'], acfg['top'], universe, dh)
    elif acfg['kind'] == 'sma':
        alpha = SMATrendAlpha(signals, acfg['fast'], acfg['slow'], universe)
    elif acfg['kind'] == 'invvol':
        alpha = InvVolAlpha(signals, acfg['lookback'], universe, short=not cfg['long_only'])
    else:
        raise ValueError(acfg['kind'])
    probe = None
    if probe_signals and signals is not None:
        def probe(dt):
            out = {}
            for name, s in sig.items():
                lbs = cfg['signals'][name]
                # the watch list: every asset the signal's universe will ever contain, entered or not (a signal
                # asked about an asset it does not track yet answers with KeyError)
                ucfg_ = cfg.get('signal_universe') or cfg['universe']
                watch = list(ucfg_['assets'] if ucfg_['kind'] == 'static' else ucfg_['dates'])
                tracked = list(s.assets)
                for a in tracked + [x for x in watch if x not in tracked]:
                    for lb in lbs:
                        try:
                            v = float(s(a, lb))
                        except KeyError:
                            v = 'no_buffer'
                        if a in tracked:
                            out[(name, a, lb)] = v
            return out
    inner_alpha = alpha
    alpha = RecordingAlpha(alpha, probe)
    kw = {}
    if cfg['rebalance'] == 'weekly':
        kw['rebalance_weekday'] = cfg['weekday']
    elif cfg.get('spare_weekday'):
        kw['rebalance_weekday'] = cfg['spare_weekday']
    if cfg.get('portfolio_id'):
        kw['portfolio_id'] = cfg['portfolio_id']
        kw['account_name'] = 'acct-' + cfg['portfolio_id']
    if cfg['long_only']:
        kw['cash_buffer_percentage'] = cfg['buffer']
        if cfg.get('spare_sizing_kw'):
            kw['gross_leverage'] = 2.0
    else:
        kw['gross_leverage'] = cfg['leverage']
        if cfg.get('spare_sizing_kw'):
            kw['cash_buffer_percentage'] = 0.05
    r = Run()
    r.cfg = cfg
    r.universe = universe
    r.alpha_inner = inner_alpha if acfg['kind'] in ('fixed', 'single') else None
    r.error = None
    r.fills, r.calls, r.stats = [], alpha.calls, None
    r.alpha = alpha
    r.signals = signals
    r.sig = sig
    try:
        bt = q.BacktestTradingSession(
            start, end, universe, alpha, signals=signals, initial_cash=cfg['cash'], rebalance=cfg['rebalance'],
            long_only=cfg['long_only'], fee_model=kit.fee_model(cfg['fee']),
            burn_in_dt=None if cfg.get('burn_in') is None else (
                cal.ts6(cfg['burn_in']).tz_convert(cfg['burn_in_tz']) if cfg.get('burn_in_tz') else cal.ts6(cfg['burn_in'])),
            data_handler=None if own_handler else dh, **kw)     # own_handler: the session builds its handler itself
    except Exception as e:                                       # noqa
        # a configuration the session refuses to build: reported like a failure at the start instant
        r.error = (type(e).__name__, str(e)[:200], start)
        r.exc = e
        r.bt = r.port = None
        r.history, r.equity_curve, r.allocations, r.cash, r.holdings = [], [], [], None, {}
        r.alloc_table, r.data_handler = [], r_dh
        return r
    r.bt = bt
    if cfg.get('extra_clock_events'):
        # the session's clock also emits the pre- and post-market events (its public flags are switched on)
        bt.sim_engine.pre_market = bt.sim_engine.post_market = True
    port = bt.broker.portfolios[bt.portfolio_id]
    r.port = port
    log = []
    kit.tap(port, log)
    # keep a reference to the stats dict so recorded allocations survive an exception inside run()
    holder = {}
    orig_qts = bt.qts

    class QtsTap(object):
        def __getattr__(self, name):
            return getattr(orig_qts, name)

        def __call__(self, dt, stats=None):
            holder['stats'] = stats
            return orig_qts(dt, stats=stats)
    bt.qts = QtsTap()
    if hooks:
        hooks(r)
    try:
        bt.run()
    except Exception as e:                                       # noqa
        r.error = (type(e).__name__, str(e)[:200], bt.broker.current_dt)
        r.exc = e
    r.fills = [(t.dt, t.asset, t.quantity, t.price, t.commission) for _, t in log]
    r.history = [(e.dt, e.type, e.description, e.debit, e.credit, e.balance) for e in port.history]
    r.equity_curve = list(bt.equity_curve)
    raw_alloc = list(holder['stats']['target_allocations']) if holder.get('stats') else list(bt.target_allocations)
    # the per-rebalance record is read as documented (dicts with a 'Date'); should the code keep it in another shape,
    # only the public table below is compared
    native = all(isinstance(x, dict) and 'Date' in x for x in raw_alloc)
    r.allocations = raw_alloc if native else []
    r.cash = port.cash
    r.holdings = {a: d['quantity'] for a, d in port.portfolio_to_dict().items()}
    r.data_handler = r_dh
    # the public allocation table (one row per equity date), when it can be built
    r.alloc_table = []
    if raw_alloc and r.equity_curve:
        try:
            bt.target_allocations = raw_alloc
            tab = bt.get_target_allocations()
            r.alloc_table = [(d, [(c, tab.loc[d][c]) for c in tab.columns]) for d in tab.index]
        except Exception as e:                                   # noqa
            r.alloc_table = [('error', type(e).__name__)]
    return r


def digest(r, upto=None):
    """repr-exact picture of a run (optionally restricted to timestamps <= upto)."""
    def keep(dt):
        return upto is None or dt <= upto
    hist = [repr(h) for h in r.history if keep(h[0])]
    eq = [repr((t, v)) for t, v in r.equity_curve if keep(t)]
    al = [repr(list(row.items())) for row in r.allocations if keep(row['Date'])]
    fills = [repr(f) for f in r.fills if keep(f[0])]
    tab = []
    for d, row in getattr(r, 'alloc_table', []):
        if d == 'error':
            tab.append(repr(row))
        elif upto is None or d <= upto.date():
            # an empty (NaN) cell means "no target for this asset yet"; which assets get a column at all depends on
            # rebalances after the row's date, so only the filled cells belong to the row's result
            cells = [(c, v) for c, v in row if not (isinstance(v, float) and v != v)]
            if cells:               # (a row before the first rebalance says nothing - and exists only if a later one ran)
                tab.append(repr((d, cells)))
    return {'history': hist, 'equity': eq, 'allocations': al, 'fills': fills, 'alloc_table': tab}


def first_diff(a, b):
    for k in ('fills', 'history', 'equity', 'allocations', 'alloc_table'):
        if a.get(k, []) != b.get(k, []):
            a_, b_ = a.get(k, []), b.get(k, [])
            for i, (x, y) in enumerate(zip(a_, b_)):
                if x != y:
                    return '%s[%d]: %s  vs  %s' % (k, i, x[:220], y[:220])
            return '%s: lengths %d vs %d (first extra: %s)' % (
                k, len(a_), len(b_), (a_ + b_)[min(len(a_), len(b_))][:220] if len(a_) != len(b_) else '')
    return None
