"""
Reference back-tester written from the documented trading rules, in exact rationals.

Per business day: at 14:30 fill the pending batch at the open price (sells first, ascending asset inside a side,
cash -= price*qty + rate*|round(price*qty)|); at 21:00 equity = cash + sum qty*close; if the day is scheduled, size
every asset of (universe u held u weighted) from that equity and the closes and queue target - held.
Buy-and-hold: the single instant is the start's 14:30 open: sized from the open and filled at once.
"""
import datetime as D
import math
from fractions import Fraction as F

from vlib import cal

AMBIG = F(1, 10 ** 12)


class Ambiguous(Exception):
    """A sizing quotient is within 1e-12 (relative) of a rounding boundary: float and exact results may differ."""


def prices_from_rows(rows, adjust):
    """{date: (open', close')} with the same float expression the data source uses."""
    out = {}
    prev_close = float('nan')
    for y, m, d, o, c, a in sorted(rows, key=lambda r: (r[0], r[1], r[2])):
        if c is None:
            # a bar without any price (a suspended asset): open and close are both the latest earlier observation
            out[D.date(y, m, d)] = (prev_close, prev_close)
            continue
        close = a if adjust else c
        if o is None:
            op = prev_close              # an empty Open cell: the latest earlier observation is the previous close
        else:
            op = (a / c) * o if adjust else o
        out[D.date(y, m, d)] = (op, close)
        prev_close = close
    return out


def _floor_checked(x, mirror=None):
    """
    floor(x) for an exact rational x.  Within 1e-12 (relative) of a whole number floating point may land on either
    side: the case is then ambiguous - unless the same formula evaluated in floats (``mirror``) is *exactly* equal
    to x (round inputs such as cash 1000 x leverage 2), in which case no rounding happened at all.
    """
    if x == 0:                       # an exact zero (zero weight, full buffer) is exact in floating point too
        return 0
    fl = math.floor(x)
    for b in (fl, fl + 1):
        if abs(x - b) <= AMBIG * max(1, abs(x)):
            if mirror is not None:
                try:
                    if F(mirror()) == x:
                        return fl
                except (ZeroDivisionError, OverflowError, ValueError):
                    pass
            raise Ambiguous()
    return fl


def _fl(x):
    """float of a Fraction, or None when the Fraction is not exactly a float."""
    y = float(x)
    return y if F(y) == x else None


def size_long_only(E, buf, fee, weights, price):
    f = F(0) if fee is None else F(fee[0]) + F(fee[1])
    c, t = (0.0, 0.0) if fee is None else (fee[0], fee[1])
    sw = sum(weights.values())
    swf = sum(float(w) for w in weights.values())
    tgt = {}
    for a in sorted(weights):
        w = weights[a] / sw if sw != 0 else weights[a]
        alloc = E * (1 - buf) * w
        after = alloc - f * abs(alloc)

        def mirror(a=a):
            Ef = _fl(E)
            if Ef is None:
                return float('nan')
            wf = float(weights[a]) / swf if sw != 0 else float(weights[a])
            pre = Ef * (1.0 - float(buf)) * wf
            return (pre - (c * abs(pre) + t * abs(pre))) / float(price[a])
        tgt[a] = _floor_checked(after / price[a], mirror)
    return tgt


def size_long_short(E, lev, fee, weights, price):
    f = F(0) if fee is None else F(fee[0]) + F(fee[1])
    c, t = (0.0, 0.0) if fee is None else (fee[0], fee[1])
    g = sum(abs(x) for x in weights.values())
    gf = sum(abs(float(x)) for x in weights.values())
    tgt = {}
    for a in sorted(weights):
        w = weights[a] * lev / g if g != 0 else weights[a]
        alloc = E * w
        after = alloc - f * abs(alloc)

        def mirror_after(a=a):
            Ef = _fl(E)
            if Ef is None:
                return float('nan')
            wf = float(weights[a]) * (float(lev) / gf) if g != 0 else float(weights[a])
            pre = Ef * wf
            return pre - (c * abs(pre) + t * abs(pre))
        if after >= 0:
            tr = _floor_checked(after, mirror_after)
        else:
            tr = -_floor_checked(-after, lambda: -mirror_after())
        x = F(tr) / price[a]
        m2 = lambda a=a, tr=tr: abs(float(tr)) / float(price[a])      # noqa
        tgt[a] = _floor_checked(x, m2) if x >= 0 else -_floor_checked(-x, m2)
    return tgt


def run(market_prices, cfg, universe_assets):
    """
    market_prices: {asset: {date: (open, close)}} (floats); cfg as vlib.session; universe_assets: list.
    Returns fills [(ts, asset, qty, price, commission)], cash, holdings, equity [(date, value)], allocations [(ts, {a: w})].
    """
    d0, d1 = cal.date3(cfg['start']), cal.date3(cfg['end'])
    kind = cfg['rebalance']
    fee = cfg['fee']
    f = F(0) if fee is None else F(fee[0]) + F(fee[1])
    weights_cfg = cfg['alpha']['weights']
    cash = F(cfg['cash'])
    hold = {}
    pending = []
    fills, eq, allocs = [], [], []
    batches = []
    bah_tod = None
    if kind == 'buy_and_hold':
        bd = d0
        while bd.weekday() > 4:
            bd += D.timedelta(days=1)
        sched = {bd}
        # the single instant is the start rolled to a business day, at the start's own time of day; the session clock
        # only has 14:30 and 21:00 events, so with any other time of day the instant is never reached: no rebalance
        bah_tod = tuple(cfg['start'][3:])
        if bah_tod not in ((14, 30, 0), (21, 0, 0)):
            sched = set()
    else:
        wd = cal.WEEKDAYS.index(cfg['weekday'].upper()) if kind == 'weekly' else None
        sched = set(cal.schedule_dates(kind, d0, d1, wd))

    def fill(d, a, q_):
        nonlocal cash
        p = F(market_prices[a][d][0])
        cons = round(p * q_)
        com = f * abs(cons)
        # a consideration within float noise of .5 may round either way in floating point
        x = p * q_
        fr = abs(x) - math.floor(abs(x))
        if f != 0 and abs(fr - F(1, 2)) < F(1, 10 ** 12) * max(1, abs(x)):
            raise Ambiguous()
        cash -= p * q_ + com
        hold[a] = hold.get(a, 0) + q_
        if hold[a] == 0:
            del hold[a]
        fills.append((cal.ts(d, 14, 30), a, q_, float(p), float(com)))

    def size(d, which):
        E = cash + sum(F(market_prices[a][d][which]) * n for a, n in hold.items())
        full = sorted(set(hold) | set(universe_assets) | set(weights_cfg))
        w = {a: F(weights_cfg.get(a, 0.0)) for a in full}
        price = {a: F(market_prices[a][d][which]) for a in full}
        if cfg['long_only']:
            tgt = size_long_only(E, F(cfg['buffer']), fee, w, price)
        else:
            tgt = size_long_short(E, F(cfg['leverage']), fee, w, price)
        allocs.append((cal.ts(d, 21, 0) if which == 1 else cal.ts(d, 14, 30), {a: float(w[a]) for a in full}))
        return [(a, tgt[a] - hold.get(a, 0)) for a in full if tgt[a] - hold.get(a, 0) != 0]

    burn = cal.ts6(cfg['burn_in']) if cfg.get('burn_in') else None       # no rebalance and no equity point before it

    def live(d, hh, mm):
        return burn is None or cal.ts(d, hh, mm) >= burn
    for d in cal.bdays(d0, d1):
        batch = sorted(pending, key=lambda x: 0 if x[1] < 0 else 1)
        pending = []
        if batch:
            batches.append((len(fills), len(batch), 'ordered'))
        for a, n in batch:
            fill(d, a, n)
        if kind == 'buy_and_hold' and d in sched and bah_tod == (14, 30, 0) and live(d, 14, 30):
            orders = size(d, 0)
            batches.append((len(fills), len(orders), 'multiset'))
            for a, n in orders:
                fill(d, a, n)
        E = cash + sum(F(market_prices[a][d][1]) * n for a, n in hold.items())
        if d in sched and (kind != 'buy_and_hold' or bah_tod == (21, 0, 0)) and live(d, 21, 0):
            # (a buy-and-hold start stamped 21:00 is that day's close: sized there, filled at the next open)
            pending = size(d, 1)
        if live(d, 21, 0):
            eq.append((d, float(E)))
    return {'fills': fills, 'cash': cash, 'holdings': dict(hold), 'equity': eq, 'allocations': allocs,
            'batches': batches, 'pending': pending}
