"""G-market: synthetic daily-bar markets as explicit JSON rows, written as Yahoo-format CSV files."""
import contextlib
import datetime as D
import os
import random
import shutil
import tempfile

from hypothesis import strategies as st

SYMBOLS = ['A', 'AB', 'A_1', 'Z9', 'SPY', 'AGG', 'B', 'C', 'GLD', 'Q_1', 'BF.B', 'BF']      # incl. a ticker with a dot
_TMP = '/dev/shm' if os.path.isdir('/dev/shm') and os.access('/dev/shm', os.W_OK) else None


def build_rows(seed, d0, ndays, gappy=False, missing=False, weekend_rows=False, flat=False, p0=None, k=None,
               subunit=False, vol=1.0):
    """Rows [y, m, d, open, close, adj] for every (kept) day in d0 .. d0+ndays-1; a pure function of its arguments."""
    rnd = random.Random(seed)
    p = p0 if p0 is not None else (rnd.uniform(0.05, 0.9) if subunit else rnd.uniform(5, 500))
    kk = k if k is not None else rnd.choice([1.0, 1.0, round(rnd.uniform(0.3, 1.0), 4)])
    rows = []
    gap = 0
    for i in range(ndays):
        d = d0 + D.timedelta(days=i)
        wk = d.weekday() >= 5
        if wk and not (weekend_rows and rnd.random() < 0.3):
            continue
        if flat:
            o = c = p
        else:
            o = p * (1 + rnd.uniform(-.03, .03) * vol)
            c = o * (1 + rnd.uniform(-.04, .04) * vol)
            p = c
        if gappy and not wk:
            if gap > 0:
                gap -= 1
                continue
            r = rnd.random()
            if r < 0.10:
                continue
            if r < 0.14:
                gap = rnd.randint(1, 4)
                continue
        o, c = round(o, 4), round(c, 4)
        a = round(c * kk, 4)
        if missing:
            r = rnd.random()
            if r < 0.10:
                o = None
            elif r < 0.20:
                c = None
                a = None
            elif r < 0.25:
                a = None
        rows.append([d.year, d.month, d.day, o, c, a])
    return rows


def write_market(symbols, path, extra=False):
    """symbols: {name: rows}; rows are written in list order (so a shuffled list gives an unsorted file)."""
    os.makedirs(path, exist_ok=True)
    fmt = lambda x: '' if x is None else (str(x) if isinstance(x, int) and not isinstance(x, bool) else repr(float(x)))     # noqa  (whole-number cells stay integers)
    for name, rows in symbols.items():
        with open(os.path.join(path, name + '.csv'), 'w') as f:
            # (with `extra` the vendor adds columns that are no part of the documented format: its own adjusted open,
            # dividends, split ratios - 2.0 on a few days, 0 otherwise)
            f.write('Date,Open,High,Low,Close,Adj Close,Volume%s\n' % (',Adj Open,Dividends,Stock Splits' if extra else ''))
            for y, m, d, o, c, a in rows:
                hi = max(x for x in (o, c, 1e-9) if x is not None)
                lo = min(x for x in (o, c, 1e9) if x is not None)
                # the Volume column is not part of any price: some days report 0, some leave it empty
                vol = '0' if d % 7 == 0 else ('' if d % 11 == 0 else '1000')
                more = ',%s,0.0,%s' % ('' if o is None else repr(float(o) * 1.0137), '2.0' if d % 13 == 0 else '0.0') if extra else ''
                f.write('%04d-%02d-%02d,%s,%s,%s,%s,%s,%s%s\n' % (y, m, d, fmt(o), fmt(hi), fmt(lo), fmt(c), fmt(a), vol, more))


def write_junk(symbols, path):
    """Files a data directory may hold beside the bar files and that are not bar files: a compressed archive copy of
    the first symbol's file with other (older) prices, a backup, notes."""
    import gzip
    name = sorted(symbols)[0]
    with gzip.open(os.path.join(path, name + '.csv.gz'), 'wt') as f:
        f.write('Date,Open,High,Low,Close,Adj Close,Volume\n')
        for y, m, d, o, c, a in symbols[name]:
            v = [('' if x is None else repr(float(x) * 2.5)) for x in (o, o, o, c, a)]
            f.write('%04d-%02d-%02d,%s,1000\n' % (y, m, d, ','.join(v)))
    with open(os.path.join(path, name + '.csv.bak'), 'w') as f:
        f.write('Date,Open,High,Low,Close,Adj Close,Volume\n1999-01-04,1,1,1,1,1,1\n')
    with open(os.path.join(path, 'NOTES.txt'), 'w') as f:
        f.write('prices as downloaded\n')


@contextlib.contextmanager
def csv_dir(symbols, junk=False, extra=False):
    path = tempfile.mkdtemp(prefix='vq_', dir=_TMP)
    try:
        write_market(symbols, path, extra=extra)
        if junk:
            write_junk(symbols, path)
        yield path
    finally:
        shutil.rmtree(path, ignore_errors=True)


def first_date(rows):
    return min(D.date(r[0], r[1], r[2]) for r in rows) if rows else None


@st.composite
def symbol_names(draw, lo=1, hi=5):
    return draw(st.lists(st.sampled_from(SYMBOLS), min_size=lo, max_size=hi, unique=True))


@st.composite
def dense_markets(draw, names, d0, ndays, lead=7, subunit=False, tie_prone=False, vol=1.0):
    """Every Monday-Friday from `lead` days before d0 has a complete bar."""
    out = {}
    base_seed = draw(st.integers(0, 2 ** 31))
    first = d0 - D.timedelta(days=lead)
    same = tie_prone and draw(st.booleans())
    for i, n in enumerate(names):
        seed = base_seed if (same and i > 0 and draw(st.booleans())) else base_seed + 7919 * (i + 1)
        flat = tie_prone and draw(st.sampled_from([False, False, True]))
        out[n] = build_rows(seed, first, ndays + lead + 1, flat=flat, vol=vol,
                            subunit=subunit and draw(st.sampled_from([False, False, True])))
    return out
