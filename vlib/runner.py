"""
Runner for the property checks:  ./vcheck <ID> <quick|thorough> [--replay FILE] [--cases N] [--only PART]

A check module (checks/cNN_*.py) exposes

    PROPERTY      'C01'
    RULE          text: how cases are generated and what makes one non-trivial
    ASSUMPTIONS   list of strings
    PARTS         list of vlib.runner.Part

Every case is pure JSON data; ``part.run_case(case)`` is a pure function of the case and the code under
test.  Hypothesis drives generation and shrinking; the shrunk case is the replay file and is re-executed
without Hypothesis by ``--replay``.

Exit codes: 0 held on everything explored, 1 violation (prints ``VIOLATION property=<id> replay=<path>``),
2 harness error / inconclusive.
"""
import argparse
import hashlib
import importlib
import json
import multiprocessing as mp
import os
import sys
import time
import traceback

VERIF = os.path.dirname(os.path.dirname(os.path.abspath(__file__)))
REPO = os.path.abspath(os.environ.get('VERIF_REPO', '/repo'))
if REPO not in sys.path[:1]:
    sys.path.insert(0, REPO)

CHECKS = {
    'C01': 'c01_cash', 'C02': 'c02_holdings', 'C03': 'c03_pnl', 'C04': 'c04_fills', 'C05': 'c05_quote_fee',
    'C06': 'c06_pit_data', 'C07': 'c07_causal', 'C08': 'c08_reference', 'C09': 'c09_rebalance',
    'C10': 'c10_long_only', 'C11': 'c11_long_short', 'C12': 'c12_clock', 'C13': 'c13_schedules',
    'C14': 'c14_session', 'C15': 'c15_refusals', 'C16': 'c16_signals', 'C17': 'c17_stats',
    'C18': 'c18_determinism', 'C19': 'c19_universe',
}


# --------------------------------------------------------------------------------------------------
# verdicts

class Violation(Exception):
    """The property does not hold for this case."""


class Inconclusive(Exception):
    """The case could not exercise the property (never a violation)."""


class Result(object):
    __slots__ = ('classes', 'nontrivial', 'excluded', 'known', 'info')

    def __init__(self, classes=(), nontrivial=False, excluded=None, known=None, info=None):
        self.classes = list(classes)      # labels for the class histogram
        self.nontrivial = bool(nontrivial)
        self.excluded = excluded          # label if the case was excluded (boundary-ambiguous, ...)
        self.known = known                # key of a KNOWN-FINDING met by this case
        self.info = info                  # small dict with counters (summed by the runner)


class Part(object):
    """
    kind 'hyp'     : strategy -> case -> run_case(case)
    kind 'machine' : Hypothesis rule-based state machine built by ``machine(rec)``; the case is the op list
                     and ``run_case(ops)`` re-executes it through the same interpreter
    kind 'sweep'   : ``sweep(tier)`` yields cases (finite enumeration, sharded by index)
    """

    def __init__(self, name, kind, run_case, strategy=None, machine=None, sweep=None,
                 quick=0, thorough=0, quick_shards=4, thorough_shards=16, steps=(40, 60),
                 exhaustive=False):
        self.name = name
        self.kind = kind
        self.run_case = run_case
        self.strategy = strategy
        self.machine = machine
        self.sweep = sweep
        self.n = {'quick': quick, 'thorough': thorough}
        self.shards = {'quick': quick_shards, 'thorough': thorough_shards}
        self.steps = {'quick': steps[0], 'thorough': steps[1]}
        self.exhaustive = exhaustive


def canon(case):
    return json.dumps(case, sort_keys=True, separators=(',', ':'), default=str)


def case_hash(case):
    return hashlib.sha256(canon(case).encode()).hexdigest()[:16]


def shard_seed(seed, prop, part, shard):
    h = hashlib.sha256(('%s/%s/%s/%s' % (seed, prop, part, shard)).encode()).digest()
    return int.from_bytes(h[:8], 'big')


def sut_frames(tb):
    """True when the traceback passes through the code under test."""
    for fs in traceback.extract_tb(tb):
        if os.path.abspath(fs.filename).startswith(REPO + os.sep):
            return True
    return False


# --------------------------------------------------------------------------------------------------
# per-shard recorder

class CaseFailed(Exception):
    pass


class Recorder(object):
    SHRINK_BUDGET = {'quick': 25.0, 'thorough': 150.0}

    def __init__(self, prop, part, tier, shard):
        self.prop, self.part, self.tier, self.shard = prop, part, tier, shard
        self.evals = 0
        self.classes = {}
        self.excluded = {}
        self.info = {}
        self.nontrivial = set()
        self.known = {}
        self.samples = {}          # class label -> case (first seen)
        self.failures = []         # (size, path, msg)
        self.errors = []           # harness errors (traceback text)
        self.inconclusive = 0
        self.first_fail_t = None

    # shrink guard: once the budget is spent every further call passes at once, so the shrinker stops
    def guard(self):
        return (self.first_fail_t is not None and
                time.time() - self.first_fail_t > self.SHRINK_BUDGET[self.tier])

    def run(self, case):
        if self.guard():
            return
        self.evals += 1
        try:
            res = self.part.run_case(case)
        except Violation as v:
            self.failure(case, str(v))
            raise CaseFailed(str(v))
        except Inconclusive:
            self.inconclusive += 1
            return
        except CaseFailed:
            raise
        except Exception as e:                               # noqa
            tb = traceback.format_exc()
            # (the exception itself, or the one it was raised from, comes out of the code under test)
            chain, x_ = [], e
            while x_ is not None and len(chain) < 6:
                chain.append(x_)
                x_ = x_.__cause__ or x_.__context__
            if any(sut_frames(x_.__traceback__) for x_ in chain):
                msg = 'code under test raised %s: %s' % (type(e).__name__, e)
                self.failure(case, msg + '\n' + tb)
                raise CaseFailed(msg)
            self.errors.append(tb)
            self.save(case, 'error', tb)
            return
        self.done(case, res)

    def done(self, case, res):
        if res is None:
            res = Result()
        for c in res.classes:
            self.classes[c] = self.classes.get(c, 0) + 1
            if c not in self.samples and len(self.samples) < 6:
                self.samples[c] = case
        if res.info:
            for k, v in res.info.items():
                self.info[k] = self.info.get(k, 0) + v
        if res.excluded:
            self.excluded[res.excluded] = self.excluded.get(res.excluded, 0) + 1
        if res.known:
            self.known[res.known] = self.known.get(res.known, 0) + 1
        if res.nontrivial and not res.excluded:
            self.nontrivial.add(case_hash(case))
            if '_nontrivial' not in self.samples:
                self.samples['_nontrivial'] = case

    def save(self, case, kind, msg):
        d = os.path.join(VERIF, 'replays', 'found')
        os.makedirs(d, exist_ok=True)
        path = os.path.join(d, '%s-%s-%s-%s.json' % (self.prop, self.part.name, kind, case_hash(case)))
        with open(path, 'w') as f:
            json.dump({'property': self.prop, 'part': self.part.name, 'message': msg[:4000], 'case': case},
                      f, indent=1, default=str)
        return path

    def failure(self, case, msg):
        if self.first_fail_t is None:
            self.first_fail_t = time.time()
        path = self.save(case, 'fail', msg)
        self.failures.append((len(canon(case)), path, msg.split('\n')[0][:500]))

    def summary(self):
        best = None
        if self.failures:
            # Hypothesis replays the minimal example last; fall back to the smallest seen
            last = self.failures[-1]
            smallest = min(self.failures, key=lambda f: f[0])
            best = last if last[0] <= smallest[0] * 1.05 else smallest
            for _, p, _ in self.failures:
                if p != best[1] and os.path.exists(p):
                    os.remove(p)
        return {
            'part': self.part.name, 'shard': self.shard, 'evals': self.evals, 'classes': self.classes,
            'excluded': self.excluded, 'nontrivial': sorted(self.nontrivial), 'known': self.known,
            'samples': self.samples, 'failure': best, 'errors': self.errors[:3], 'info': self.info,
            'n_errors': len(self.errors), 'inconclusive': self.inconclusive,
        }


def run_shard(args):
    prop, part_name, tier, shard, nshards, n_cases, seed = args
    os.environ['VERIF_TIER'] = tier
    mod = importlib.import_module('checks.' + CHECKS[prop])
    part = [p for p in mod.PARTS if p.name == part_name][0]
    rec = Recorder(prop, part, tier, shard)
    t0 = time.time()
    import warnings
    warnings.filterwarnings('ignore')
    try:
        if part.kind == 'sweep':
            for i, case in enumerate(part.sweep(tier)):
                if i % nshards != shard:
                    continue
                try:
                    rec.run(case)
                except CaseFailed:
                    break
        else:
            import hypothesis
            from hypothesis import HealthCheck, Phase, given, settings
            st = settings(
                max_examples=n_cases, database=None, deadline=None, derandomize=False,
                report_multiple_bugs=False, phases=[Phase.generate, Phase.shrink],
                suppress_health_check=[HealthCheck.too_slow, HealthCheck.data_too_large,
                                       HealthCheck.large_base_example],
                stateful_step_count=part.steps[tier], verbosity=hypothesis.Verbosity.quiet,
            )
            sd = shard_seed(seed, prop, part_name, shard)
            try:
                if part.kind == 'hyp':
                    @hypothesis.seed(sd)
                    @settings(parent=st)
                    @given(part.strategy)
                    def t(case):
                        rec.run(case)
                    t()
                else:
                    from hypothesis.stateful import run_state_machine_as_test
                    machine = part.machine(rec)
                    run_state_machine_as_test(hypothesis.seed(sd)(machine), settings=st)
            except CaseFailed:
                pass
            except Exception as e:                           # noqa
                # Flaky (from the shrink guard) and friends are fine when we hold a recorded failure
                if not rec.failures:
                    rec.errors.append(traceback.format_exc())
    except Exception:                                        # noqa
        rec.errors.append(traceback.format_exc())
    out = rec.summary()
    out['wall_s'] = time.time() - t0
    return out


# --------------------------------------------------------------------------------------------------
# known findings

def load_findings(prop):
    path = os.path.join(VERIF, 'KNOWN_FINDINGS.txt')
    known = {}
    if os.path.exists(path):
        for line in open(path):
            line = line.strip()
            if line.startswith('KNOWN-FINDING:') and ('property=%s ' % prop) in line:
                toks = line.split()
                key = [t for t in toks if t.startswith('key=')]
                known[key[0][4:] if key else line] = line
    return known


# --------------------------------------------------------------------------------------------------

def replay_file(mod, path):
    with open(path) as f:
        doc = json.load(f)
    part = [p for p in mod.PARTS if p.name == doc['part']][0]
    try:
        part.run_case(doc['case'])
        return None
    except Violation as v:
        return str(v)
    except Inconclusive:
        return None
    except Exception as e:                                   # noqa
        if sut_frames(e.__traceback__):
            return 'code under test raised %s: %s' % (type(e).__name__, e)
        raise


def main(argv=None):
    ap = argparse.ArgumentParser()
    ap.add_argument('prop')
    ap.add_argument('tier', nargs='?', default=os.environ.get('VERIF_TIER', 'quick'),
                    choices=['quick', 'thorough'])
    ap.add_argument('--replay')
    ap.add_argument('--cases', type=int)
    ap.add_argument('--only')
    ap.add_argument('--shards', type=int)
    ap.add_argument('--no-evidence', action='store_true')
    a = ap.parse_args(argv)
    prop = a.prop.upper()
    seed = int(os.environ.get('VERIF_SEED', '1') or 1)
    os.environ['VERIF_TIER'] = a.tier
    mod = importlib.import_module('checks.' + CHECKS[prop])

    if a.replay:
        msg = replay_file(mod, a.replay)
        if msg:
            print('replay fails: %s' % msg.split('\n')[0])
            print('VIOLATION property=%s replay=%s' % (prop, os.path.abspath(a.replay)))
            return 1
        print('replay passes: %s' % a.replay)
        return 0

    import warnings
    warnings.filterwarnings('ignore')
    t0 = time.time()
    known = load_findings(prop)
    violations = []

    # 1. committed regression replays
    rdir = os.path.join(VERIF, 'replays', 'regress')
    replays = sorted(f for f in (os.listdir(rdir) if os.path.isdir(rdir) else []) if f.startswith(prop + '-'))
    if os.environ.get('VERIF_SKIP_REPLAYS'):        # sensitivity self-test: measure the generated search alone
        replays = []
    for f in replays:
        msg = replay_file(mod, os.path.join(rdir, f))
        if msg:
            violations.append((os.path.join(rdir, f), 'regression replay fails: ' + msg.split('\n')[0]))

    # 2. generated search
    jobs = []
    for part in mod.PARTS:
        if a.only and part.name != a.only:
            continue
        n = a.cases if a.cases else part.n[a.tier]
        ns = a.shards or part.shards[a.tier]
        if part.kind != 'sweep':
            if n <= 0:
                continue
            ns = max(1, min(ns, n))
            per = (n + ns - 1) // ns
        else:
            if n < 0:
                continue
            per = 0
        for s in range(ns):
            jobs.append((prop, part.name, a.tier, s, ns, per, seed))
    ncpu = min(len(jobs), int(os.environ.get('VERIF_JOBS', '16'))) or 1
    if ncpu > 1:
        ctx = mp.get_context('fork')
        with ctx.Pool(ncpu, maxtasksperchild=1) as pool:
            outs = pool.map(run_shard, jobs, chunksize=1)
    else:
        outs = [run_shard(j) for j in jobs]

    evals = 0
    hist, excluded, info, known_hits, samples = {}, {}, {}, {}, []
    nontrivial = set()
    parts = {}
    errors = []
    inconclusive = 0
    for o in outs:
        evals += o['evals']
        inconclusive += o['inconclusive']
        p = parts.setdefault(o['part'], {'evaluations': 0, 'distinct_nontrivial': set(), 'shards': 0,
                                         'wall_s': 0.0})
        p['evaluations'] += o['evals']
        p['distinct_nontrivial'] |= set(o['nontrivial'])
        p['shards'] += 1
        p['wall_s'] = max(p['wall_s'], round(o['wall_s'], 2))
        for k, v in o['classes'].items():
            hist[o['part'] + ':' + k] = hist.get(o['part'] + ':' + k, 0) + v
        for k, v in o['excluded'].items():
            excluded[k] = excluded.get(k, 0) + v
        for k, v in o['info'].items():
            info[k] = info.get(k, 0) + v
        for k, v in o['known'].items():
            known_hits[k] = known_hits.get(k, 0) + v
        nontrivial |= set((o['part'], h) for h in o['nontrivial'])
        if o['shard'] == 0:
            for label, case in o['samples'].items():
                if len(samples) < 8:
                    samples.append({'part': o['part'], 'class': label, 'case': case})
        if o['failure'] and o['failure'][1] not in [v[0] for v in violations]:
            violations.append((o['failure'][1], o['failure'][2]))
        errors += o['errors']
    for p in parts.values():
        p['distinct_nontrivial'] = len(p['distinct_nontrivial'])

    # known findings: print, never count
    unknown_known = [k for k in known_hits if k not in known]
    for k in known_hits:
        if k in known:
            print(known[k])
    for k in unknown_known:
        violations.append(('-', 'check reported finding key %s that KNOWN_FINDINGS.txt does not list' % k))

    wall = time.time() - t0
    if not a.no_evidence:
        ev = {
            'property_id': prop, 'tier': a.tier, 'seed': seed, 'level': 'exploration',
            'coverage': {
                'evaluations': evals,
                'distinct_nontrivial': len(nontrivial),
                'rule': mod.RULE,
                'samples': samples,
                'class_histogram': dict(sorted(hist.items())),
                'excluded': excluded,
                'counters': info,
                'known_finding_hits': known_hits,
                'parts': parts,
                'replays_run': len(replays),
                'inconclusive_cases': inconclusive,
                'harness_errors': len(errors),
                'exhaustive': False,
                'repo': REPO,
            },
            'assumptions': list(mod.ASSUMPTIONS),
            'wall_s': round(wall, 2),
            'violations': len(violations),
        }
        os.makedirs(os.path.join(VERIF, 'evidence'), exist_ok=True)
        with open(os.path.join(VERIF, 'evidence', prop + '.json'), 'w') as f:
            json.dump(ev, f, indent=1, default=str)

    print('%s %s seed=%d: %d cases, %d distinct non-trivial, %d replays, %.1fs' % (
        prop, a.tier, seed, evals, len(nontrivial), len(replays), wall))
    for k in sorted(parts):
        print('  part %-12s %7d cases %7d non-trivial  %.1fs' % (
            k, parts[k]['evaluations'], parts[k]['distinct_nontrivial'], parts[k]['wall_s']))
    if os.environ.get('VERIF_VERBOSE'):
        for k, v in sorted(hist.items()):
            print('    %-40s %d' % (k, v))
        for k, v in sorted(info.items()):
            print('    # %-38s %d' % (k, v))
        for k, v in sorted(excluded.items()):
            print('    excluded %-31s %d' % (k, v))
    if violations:
        for path, msg in violations:
            print('  ' + msg)
            print('VIOLATION property=%s replay=%s' % (prop, path))
        return 1
    post = getattr(mod, 'post', None)
    why = post(info) if post else None
    if why:
        print('INCONCLUSIVE: ' + why)
        return 2
    if errors:
        print('HARNESS ERROR (%d):' % len(errors))
        print(errors[0])
        return 2
    if evals == 0 or len(nontrivial) < 2:
        print('INCONCLUSIVE: no non-trivial case was explored')
        return 2
    return 0


if __name__ == '__main__':
    sys.exit(main())
