"""
M-broker: model-based history machine over a real SimulatedBroker + real SimulatedExchange + stub data handler.

A history is a list of JSON ops.  ``Harness.step(op)`` resolves the op against the live state, applies it to the
real broker and to an exact-rational model and evaluates the oracles enabled by ``mode`` (one of C01, C02, C04,
C15).  The Hypothesis rule-based machine (``make_machine``) only generates ops and hands them to the same
interpreter, so a replayed op list cannot diverge from what the machine did.
"""
import copy
import datetime as D
from fractions import Fraction as F

import pandas as pd
from hypothesis import strategies as st
from hypothesis.stateful import RuleBasedStateMachine, initialize, precondition, rule

from vlib import cal, kit
from vlib.runner import CaseFailed, Result, Violation, sut_frames
from vlib.sut import load

ASSETS = ['EQ:A', 'EQ:AB', 'EQ:Brk.b', 'EQ:C', 'EQ:Z9']
TODS = [(0, 0, 0), (14, 29, 59), (14, 30, 0), (14, 30, 1), (17, 0, 0), (20, 59, 59), (21, 0, 0), (21, 0, 1), (23, 59, 0),
        (14, 29, 59, 600000), (14, 29, 59, 999999), (20, 59, 59, 600000), (20, 59, 59, 999999), (21, 0, 0, 1)]      # incl. sub-second
OPEN_TODS = [(14, 30, 0), (14, 30, 1), (15, 45, 10), (17, 0, 0), (20, 59, 59)]
SMALL_AMOUNTS = [0.0, 0.01, 0.5, 1.0, 1.5]


def _oid(item):
    """Order id of a queue entry: the order itself, or a record (tuple/list) that carries the order."""
    if hasattr(item, 'order_id'):
        return item.order_id
    if isinstance(item, (tuple, list)):
        for x in item:
            if hasattr(x, 'order_id'):
                return x.order_id
    return repr(item)


def queue_ids(b, pid):
    return [_oid(o) for o in b.open_orders[pid].queue]


def snapshot(b):
    """Deep, comparable picture of everything C15 lists: cash, holdings, pending orders, history, key sets."""
    ports = {}
    for pid, p in b.portfolios.items():
        ports[pid] = (
            p.cash,
            copy.deepcopy(p.portfolio_to_dict()),
            queue_ids(b, pid) if pid in b.open_orders else None,
            [(e.dt, e.type, e.description, e.debit, e.credit, e.balance) for e in p.history],
        )
    return (dict(b.cash_balances), ports, sorted(b.portfolios.keys()), sorted(b.open_orders.keys()))


def strip_marks(s):
    """Snapshot without market values / P&L (a closed-hours update may re-mark positions)."""
    return (s[0], {pid: (v[0], {a: d['quantity'] for a, d in v[1].items()}, v[2], v[3]) for pid, v in s[1].items()},
            s[2], s[3])


def diff_snap(a, b):
    if a[0] != b[0]:
        return 'master balances %r -> %r' % (a[0], b[0])
    if a[2] != b[2]:
        return 'portfolio ids %r -> %r' % (a[2], b[2])
    if a[3] != b[3]:
        return 'order queues %r -> %r' % (a[3], b[3])
    for pid in a[1]:
        x, y = a[1][pid], b[1].get(pid)
        if x != y:
            names = ['cash', 'holdings', 'pending orders', 'history']
            for i in range(4):
                if y is None or x[i] != y[i]:
                    return 'portfolio %s %s: %r -> %r' % (pid, names[i], x[i] if i < 3 else x[i][-2:],
                                                          None if y is None else (y[i] if i < 3 else y[i][-2:]))
    return None


class Harness(object):
    def __init__(self, mode):
        self.mode = mode
        self.q = load()
        self.b = None
        self.nsteps = 0
        self.counts = {}
        self.cls = set()
        self.refused_valid = 0
        self.valid_ops = 0

    # ------------------------------------------------------------------------------------------ helpers
    def count(self, k, n=1):
        self.counts[k] = self.counts.get(k, 0) + n

    @property
    def pids(self):
        return list(self.cash.keys())

    def _pid(self, i):
        ps = self.pids
        return ps[i % len(ps)] if ps else None

    def _tap(self, pid):
        kit.tap(self.b.portfolios[pid], self.txlog, pid)

    def _bump(self, acct, *vals):
        m = self.mag.get(acct, F(0))
        for v in vals:
            if abs(v) > m:
                m = abs(v)
        self.mag[acct] = m

    # ------------------------------------------------------------------------------------------ step
    def step(self, op):
        self.nsteps += 1
        kind = op[0]
        if kind == 'init':
            return self._init(op[1])
        b = self.b
        before = snapshot(b) if self.mode in ('C04', 'C15') else None
        n_tx = len(self.txlog)
        raised = None
        try:
            getattr(self, 'op_' + kind)(op, before)
        except Violation:
            raise
        except Exception as e:                                   # noqa
            if not sut_frames(e.__traceback__):
                raise
            raised = e
        if raised is not None:
            self._on_unexpected_raise(op, raised, before, n_tx)
        self._apply_fills()
        self._invariants(op)

    def _on_unexpected_raise(self, op, e, before, n_tx):
        """A call the generator believes valid raised."""
        if op[0] == 'clock' and self.mode == 'C04':
            raise Violation('broker.update(%s) raised %s: %s' % (self.t, type(e).__name__, e))
        if op[0] == 'clock' and self.mode == 'C15' and self.counts.get('refusals'):
            raise Violation('after %d refused requests a valid broker.update(%s) raised %s: %s - a refusal left something '
                            'behind' % (self.counts['refusals'], self.t, type(e).__name__, e))
        self.refused_valid += 1
        self.count('unexpected_refusal_' + op[0])
        if self.mode == 'C15':
            d = diff_snap(before, snapshot(self.b))
            if d and op[0] != 'clock':
                raise Violation('%s raised %s but changed state: %s' % (op, type(e).__name__, d))

    # ------------------------------------------------------------------------------------------ init
    def _init(self, cfg):
        q = self.q
        self.cfg = cfg
        self.t = cal.ts6(cfg['start'])
        self.dh = kit.StubDH()
        self.assets = list(cfg['assets'])
        for a in self.assets:
            bid, ask = cfg['quotes'][a]
            self.dh.set(a, bid, ask)
        init = cfg['initial_funds']
        # the exchange object may have been constructed for a later start than the broker's (its hours do not depend on it)
        ex_start = self.t + pd.Timedelta(days=cfg.get('exchange_lead_days', 0))
        self.b = q.SimulatedBroker(self.t, q.SimulatedExchange(ex_start), self.dh, initial_funds=init,
                                   fee_model=kit.fee_model(cfg['fee']), base_currency=cfg.get('currency', 'USD'))

        self.master = F(init)
        self.cash, self.pend, self.net, self.last, self.hist = {}, {}, {}, {}, {}
        self.mag = {'#account': abs(F(init))}
        self.txlog = []
        self.submitted = {}      # order id -> outstanding submissions [(pid, asset, qty), ...] (one Order object may be submitted again)
        self.nsub = {}           # order id -> number of submissions
        self.last_order = None
        self.filled = {}         # order id -> count
        self.seen_kinds = set()
        self.flags = set()
        if cfg.get('currency', 'USD') != 'USD':
            self.flags.add('non_default_base_currency')
        if cfg.get('exchange_lead_days'):
            self.flags.add('exchange_built_for_a_later_start')
        self._closed = {}
        self._applied = 0
        self.pclock = {}         # model of each portfolio's clock: creation, transfers and fills move it forward
        self._invariants(['init'])

    # ------------------------------------------------------------------------------------------ valid ops
    def _amount(self, spec, balance):
        how, x = spec
        if how == 'frac':
            a = balance * x if balance > 0 else 0.0
            if x == 1.0:
                a = balance if balance > 0 else 0.0
            return a
        return min(x, balance) if balance > 0 else 0.0

    def op_asub(self, op, before):
        a = op[1]
        self.valid_ops += 1
        self.b.subscribe_funds_to_account(a)
        self.master += F(a)
        self._bump('#account', F(a), self.master)

    def op_awd(self, op, before):
        bal = self.b.get_account_cash_balance(self.b.base_currency)
        a = self._amount(op[1], bal)
        self.valid_ops += 1
        self.b.withdraw_funds_from_account(a)
        self.master -= F(a)
        self.flags.add('account_withdrawal')
        if a == bal and a > 0:
            self.flags.add('withdraw_exact_balance')

    def op_create(self, op, before):
        pid = op[1] if len(op) > 1 else ['p7', 'p2', 'p9', 'p1'][len(self.cash) % 4] + ('x' * (len(self.cash) // 4))
        if len(self.cash) >= 4 or pid in self.cash:
            return
        self.valid_ops += 1
        self.b.create_portfolio(int(pid) if pid.isdigit() else pid)
        self._tap(pid)
        self.cash[pid] = F(0)
        self.pend[pid] = []
        self.net[pid] = {}
        self.last[pid] = {}
        self.hist[pid] = []
        self.mag[pid] = F(0)
        self.pclock[pid] = self.b.current_dt

    def _lead_blocks(self, pid):
        return self.b.portfolios[pid].current_dt > self.b.current_dt

    def op_psub(self, op, before):
        pid = self._pid(op[1])
        if pid is None:
            return
        bal = self.b.get_account_cash_balance(self.b.base_currency)
        a = self._amount(op[2], bal)
        if self._lead_blocks(pid):
            return self._transfer_while_leading(lambda: self.b.subscribe_funds_to_portfolio(pid, a), op)
        self.valid_ops += 1
        nh = len(self.b.portfolios[pid].history)
        self.b.subscribe_funds_to_portfolio(pid, a)
        self.master -= F(a)
        self.cash[pid] += F(a)
        if a != 0 or len(self.b.portfolios[pid].history) != nh:     # an event for a zero transfer is optional
            self.hist[pid].append(('subscription', F(a), self.cash[pid]))
        self._bump(pid, F(a), self.cash[pid])
        self.flags.add('transfer_in')
        self.pclock[pid] = max(self.pclock[pid], self.b.current_dt)
        if a <= 1.0:
            self.flags.add('amount_le_1')

    def op_pwd(self, op, before):
        pid = self._pid(op[1])
        if pid is None:
            return
        bal = self.b.get_portfolio_cash_balance(pid)
        if bal < 0:
            return
        a = self._amount(op[2], bal)
        if self._lead_blocks(pid):
            return self._transfer_while_leading(lambda: self.b.withdraw_funds_from_portfolio(pid, a), op)
        self.valid_ops += 1
        nh = len(self.b.portfolios[pid].history)
        self.b.withdraw_funds_from_portfolio(pid, a)
        self.master += F(a)
        self.cash[pid] -= F(a)
        if a != 0 or len(self.b.portfolios[pid].history) != nh:
            self.hist[pid].append(('withdrawal', -F(a), self.cash[pid]))
        self._bump('#account', self.master)
        self.flags.add('transfer_out')
        self.pclock[pid] = max(self.pclock[pid], self.b.current_dt)
        if a == bal and a > 0:
            self.flags.add('withdraw_exact_balance')

    def _transfer_while_leading(self, call, op):
        """The portfolio's own clock is ahead of the broker's (after a future-dated direct deposit): the portfolio
        refuses the transfer.  The ledgers are left as they are, so any cash that moved shows up in the invariants."""
        try:
            call()
        except (ValueError, KeyError):
            self.count('transfers_refused_while_portfolio_leads')
            self.flags.add('transfer_refused_portfolio_leads')
            return
        raise Violation('%s: a transfer stamped earlier than the portfolio clock was accepted' % (op,))

    def op_pdeposit(self, op, before):
        """A valid direct deposit on a broker-owned portfolio, dated `minutes` after its clock."""
        _, pi, minutes, amount = op
        pid = self._pid(pi)
        if pid is None:
            return
        port = self.b.portfolios[pid]
        later = max(self.b.current_dt, port.current_dt) + pd.Timedelta(minutes=minutes)
        self.valid_ops += 1
        port.subscribe_funds(later, amount)
        self.cash[pid] += F(amount)
        self.hist[pid].append(('subscription', F(amount), self.cash[pid]))
        self._bump(pid, F(amount), self.cash[pid])
        self.pclock[pid] = max(self.pclock[pid], later)
        self.flags.add('direct_future_deposit')

    def op_pfill(self, op, before):
        """A position booked directly on a broker-owned portfolio (an existing holding transferred in), not through an
        order: it is a fill like any other for cash, holdings and later re-marks."""
        _, pi, ai, qty = op
        pid = self._pid(pi)
        if pid is None or qty == 0:
            return
        a = self.assets[ai % len(self.assets)]
        port = self.b.portfolios[pid]
        bid, ask = self.dh.q[a]
        dt = max(self.b.current_dt, port.current_dt)
        oid = 'direct%d' % len(self.txlog)
        self.valid_ops += 1
        self.nsub[oid] = 1
        port.transact_asset(self.q.Transaction(a, qty, dt, ask if qty > 0 else bid, oid, commission=0.0))
        self.flags.add('position_booked_directly')

    def op_order(self, op, before):
        _, pi, ai, how, mag, sign = op[:6]
        variant = op[6] if len(op) > 6 else None
        pid = self._pid(pi)
        if pid is None:
            return
        a = self.assets[ai % len(self.assets)]
        if variant == 'resubmit' and self.last_order is not None:
            # the very same Order object is submitted again (to this or another portfolio): one more acceptance,
            # one more fill
            order = self.last_order
            a, qty = order.asset, order.quantity
            self.valid_ops += 1
            self.flags.add('same_order_object_submitted_again')
            self.b.submit_order(pid, order)
            self._note_submission(pid, order, a, qty, before)
            return
        if variant == 'swap':
            # one asset of the portfolio is closed out and another, not held so far, is bought by the same update:
            # the number of positions stays the same while their names change
            def _tot(x):
                return self.net[pid].get(x, 0) + sum(qq for (_, aa, qq) in self.pend[pid] if aa == x)
            held_ = [x for x in self.assets if _tot(x) != 0]
            free_ = [x for x in self.assets if _tot(x) == 0 and not any(aa == x for (_, aa, _) in self.pend[pid])]
            if held_ and free_:
                x = held_[ai % len(held_)]
                o1 = self.q.Order(self.b.current_dt, x, int(-_tot(x)))
                self.valid_ops += 1
                self.b.submit_order(pid, o1)
                self._note_submission(pid, o1, x, int(-_tot(x)), before)
                a = free_[ai % len(free_)]
                how = 'any'
                self.flags.add('one_asset_closed_and_another_opened_together')
        cur = self.net[pid].get(a, 0)
        pending = sum(qq for (_, aa, qq) in self.pend[pid] if aa == a)
        cur += pending
        if how == 'close' and cur != 0:
            qty = -cur
        elif how == 'flip' and cur != 0:
            qty = -cur - (mag if cur > 0 else -mag)
        else:
            qty = mag * sign
        qty = int(qty)
        if qty == 0:
            qty = 1
        if variant == 'zero':
            qty = 0                 # an order sized down to nothing: still accepted, still filled (a zero-amount event)
            self.flags.add('zero_quantity_order')
        order = self.q.Order(self.b.current_dt, a, qty)
        self.valid_ops += 1
        unquoted = None
        if variant == 'late_quote' and a in self.dh.q and not any(
                a in p_.pos_handler.positions for p_ in self.b.portfolios.values()) and not any(
                aa == a for p_ in self.pids for (_, aa, _) in self.pend[p_]):
            # the asset has no quote at the moment of submission (nobody holds or awaits it); it is quoted again
            # before the next broker update, i.e. at the fill time
            unquoted = self.dh.q.pop(a)
            self.flags.add('submitted_while_unquoted')
        try:
            self.b.submit_order(pid, order)
        finally:
            if unquoted is not None:
                self.dh.q[a] = unquoted
        self.last_order = order
        self._note_submission(pid, order, a, qty, before)

    def _note_submission(self, pid, order, a, qty, before):
        self.pend[pid].append((order.order_id, a, qty))
        self.submitted.setdefault(order.order_id, []).append((pid, a, qty))
        self.nsub[order.order_id] = self.nsub.get(order.order_id, 0) + 1
        if self.mode == 'C04':
            d = diff_snap(_drop_queue(before), _drop_queue(snapshot(self.b)))
            if d:
                raise Violation('submitting an order changed state: %s' % d)
            ql = queue_ids(self.b, pid)
            if ql != [oid for oid, _, _ in self.pend[pid]]:
                raise Violation('pending queue of %s is %s, expected %s' % (pid, ql, [x[0] for x in self.pend[pid]]))

    def op_exec(self, op, before):
        """A batch of orders through the real ExecutionHandler (submit + broker.update(dt) per order)."""
        _, pi, specs, submit = op
        pid = self._pid(pi)
        if pid is None:
            return
        from qstrader.execution.execution_handler import ExecutionHandler
        from qstrader.execution.execution_algo.market_order import MarketOrderExecutionAlgorithm
        dt = self.b.current_dt
        for p in self.b.portfolios.values():
            if p.current_dt > dt:
                return
        orders = []
        for ai, n in specs:
            orders.append(self.q.Order(dt, self.assets[ai % len(self.assets)], int(n) or 1))
        eh = ExecutionHandler(self.b, pid, None, submit_orders=submit, execution_algo=MarketOrderExecutionAlgorithm(),
                              data_handler=self.dh)
        held = {p_: list(self.b.portfolios[p_].pos_handler.positions.keys()) for p_ in self.pids}
        pend_before = {p_: list(self.pend[p_]) for p_ in self.pids}
        is_open = cal.is_open(dt)
        n_tx = len(self.txlog)
        self.valid_ops += 1
        self.flags.add('execution_handler')
        eh(dt, orders)
        if not submit:
            if self.mode == 'C04':
                d = diff_snap(strip_marks(before), strip_marks(snapshot(self.b)))
                if d or len(self.txlog) != n_tx:
                    raise Violation('execution handler with submit_orders=False changed state: %s' % d)
            return
        for o in orders:
            self.submitted.setdefault(o.order_id, []).append((pid, o.asset, o.quantity))
            self.nsub[o.order_id] = self.nsub.get(o.order_id, 0) + 1
        # the handler updates the broker after every single order: while the exchange is open each order (and
        # anything already pending) fills at once in list order; while closed everything stays queued
        new = self.txlog[n_tx:]

        def mark_all():
            for p_ in self.pids:
                for a_, n_ in self.net[p_].items():
                    if n_ != 0:
                        bq = self.dh.q[a_]
                        self.last[p_][a_] = F((bq[0] + bq[1]) / 2.0)
        if not is_open or not orders:
            mark_all()
        else:
            # one broker update per order: marks of everything held, then that update's fills
            n_first = sum(len(v) for v in pend_before.values()) + 1
            sizes = [n_first] + [1] * (len(orders) - 1)
            pos = n_tx
            for k in sizes:
                mark_all()
                pos = min(pos + k, len(self.txlog))
                self._apply_fills(pos)
        if is_open:
            first_batch = sorted(pend_before[pid] + [(orders[0].order_id, orders[0].asset, orders[0].quantity)],
                                 key=lambda x: 0 if x[2] < 0 else 1) if orders else []
            exp = first_batch + [(o.order_id, o.asset, o.quantity) for o in orders[1:]]
            got = [(t.order_id, t.asset, t.quantity) for p_, t in new if p_ == pid]
            if self.mode == 'C04':
                if got != exp:
                    raise Violation('execution handler at %s (open): filled %s, expected %s' % (
                        dt, [(x[1], x[2]) for x in got], [(x[1], x[2]) for x in exp]))
                for p_ in self.pids:
                    if p_ != pid:
                        g2 = [(t.order_id, t.asset, t.quantity) for pp, t in new if pp == p_]
                        e2 = sorted(pend_before[p_], key=lambda x: 0 if x[2] < 0 else 1)
                        if g2 != e2:
                            raise Violation('execution handler at %s: other portfolio %s filled %s, pending were %s' % (
                                dt, p_, g2, e2))
                    if not self.b.open_orders[p_].empty():
                        raise Violation('orders still queued for %s after open-hours execution' % p_)
                if any(t.dt != dt for _, t in new):
                    raise Violation('execution handler fill not stamped %s' % dt)
        else:
            self.pend[pid] += [(o.order_id, o.asset, o.quantity) for o in orders]
            if self.mode == 'C04':
                if new:
                    raise Violation('execution handler filled %s at %s outside exchange hours' % (
                        [(t.asset, t.quantity) for _, t in new], dt))
                ql = queue_ids(self.b, pid)
                if ql != [x[0] for x in self.pend[pid]]:
                    raise Violation('queue of %s after closed-hours execution holds %d orders, expected %d' % (
                        pid, len(ql), len(self.pend[pid])))

    def op_quote(self, op, before):
        _, ai, bid, ask = op
        a = self.assets[ai % len(self.assets)]
        self.dh.set(a, bid, ask)

    def op_clock(self, op, before):
        _, ddays, tod = op
        d = self.t.date() + D.timedelta(days=ddays)
        nt = pd.Timestamp(D.datetime(d.year, d.month, d.day, tod[0], tod[1], tod[2], tod[3] if len(tod) > 3 else 0), tz='UTC')
        if len(tod) > 3 and tod[3]:
            self.flags.add('sub_second_instant')
        if nt < self.t:
            nt = self.t
            self.flags.add('same_instant_again')
        # never behind a portfolio's own clock (going back in time through update() is not an anchored refusal)
        for p in self.b.portfolios.values():
            if p.current_dt > nt:
                nt = p.current_dt
        if nt == self.t:
            self.flags.add('same_instant_again')
        self.t = nt
        held = {pid: list(self.b.portfolios[pid].pos_handler.positions.keys()) for pid in self.pids}
        pend_before = {pid: list(self.pend[pid]) for pid in self.pids}
        is_open = cal.is_open(nt)
        tod_ = (nt.hour, nt.minute, nt.second)
        if tod_ in ((14, 30, 0), (21, 0, 0)) or nt.weekday() >= 5:
            self.flags.add('boundary_instant')
        n_tx = len(self.txlog)
        self.valid_ops += 1
        try:
            self.b.update(nt)
        finally:
            # marks precede fills inside one update
            for pid in self.pids:
                for a in held[pid]:
                    if a in self.net[pid] and self.net[pid][a] != 0:
                        bq = self.dh.q[a]
                        self.last[pid][a] = F((bq[0] + bq[1]) / 2.0)
        if self.mode == 'C04':
            self._check_fills(held, pend_before, is_open, n_tx, before)
        if any(pend_before.values()):
            self.count('updates_open_with_pending' if is_open else 'updates_closed_with_pending')
            if not is_open:
                self.flags.add('waited_closed')

    def op_getters(self, op, before):
        """Every read-only query of the broker: none of them may fill an order, move cash or change a holding."""
        b = self.b
        snap = snapshot(b)
        n_tx = len(self.txlog)
        cur = b.base_currency
        b.get_account_cash_balance()
        b.get_account_cash_balance(cur)
        b.get_account_total_market_value()
        b.get_account_total_equity()
        listed = b.list_all_portfolios()
        if sorted(str(p_.portfolio_id) for p_ in listed) != sorted(self.pids):
            raise Violation('list_all_portfolios() names %s, the account has %s' % (
                [p_.portfolio_id for p_ in listed], self.pids))
        for pid in self.pids:
            port = b.portfolios[pid]
            # what the broker reports about a portfolio is what the portfolio reports itself, right now
            got = (b.get_portfolio_cash_balance(pid), b.get_portfolio_total_market_value(pid),
                   b.get_portfolio_total_equity(pid),
                   {a: d['quantity'] for a, d in b.get_portfolio_as_dict(pid).items()})
            own = (port.cash, port.total_market_value, port.total_equity,
                   {a: d['quantity'] for a, d in port.portfolio_to_dict().items()})
            if got != own and not any(isinstance(x, float) and x != x for x in got[:3] + own[:3]):
                raise Violation('broker reports (cash, market value, equity, holdings) of %s as %r; the portfolio itself '
                                'reports %r' % (pid, got, own))
        eq_d, mv_d = b.get_account_total_equity(), b.get_account_total_market_value()
        for pid in self.pids:
            port = b.portfolios[pid]
            for what, dct, own in (('equity', eq_d, port.total_equity), ('market value', mv_d, port.total_market_value)):
                if pid in dct and pid != 'master' and dct[pid] != own and not (dct[pid] != dct[pid] and own != own):
                    raise Violation('account-level %s report lists %s with %r; that portfolio reports %r' % (what, pid, dct[pid], own))
        if len(self.txlog) != n_tx:
            raise Violation('read-only queries at %s filled %s' % (self.t, [(p, t.asset, t.quantity) for p, t in self.txlog[n_tx:]]))
        d = diff_snap(snap, snapshot(b))
        if d:
            raise Violation('read-only queries changed state: %s' % d)
        self.flags.add('queries_between_operations')

    # ------------------------------------------------------------------------------------------ invalid requests (C15)
    BAD_KINDS = ['neg_asub', 'neg_awd', 'over_awd', 'neg_psub', 'over_psub', 'unk_psub', 'neg_pwd', 'over_pwd',
                 'unk_pwd', 'dup', 'dup_int', 'unk_order', 'cur', 'cur_ctor', 'neg_init', 'unk_get_cash', 'unk_get_mv',
                 'unk_get_equity', 'unk_get_dict', 'early_sub', 'early_wd', 'early_txn', 'early_mark', 'neg_mark',
                 'p_neg_sub', 'p_neg_wd', 'p_over_wd', 'multi_unk_neg', 'lead_psub', 'lead_pwd', 'stale_update', 'dup_named',
                 'stale_mark', 'early_mark_nan', 'neg_quote_update', 'zero_mark', 'unk_order_int', 'remark_same_stamp']

    BAD_CODES = ['XYZ', 'gbp', 'Eur', 'usd', 'CHF', '', 'US', 'USD ', None]

    def op_bad(self, op, before):
        """An invalid request: must raise the documented error type and leave the deep snapshot unchanged."""
        _, kind, pi, x = op
        q, b = self.q, self.b
        if before is None:
            before = snapshot(b)
        pid = self._pid(pi)
        port = b.portfolios[pid] if pid else None
        cur = b.base_currency
        VE, KE = (ValueError,), (KeyError,)
        call, exp = None, VE
        over_of = None
        if kind == 'neg_asub':
            call = lambda: b.subscribe_funds_to_account(-x)
        elif kind == 'neg_awd':
            call = lambda: b.withdraw_funds_from_account(-x)
        elif kind == 'over_awd':
            call = lambda: b.withdraw_funds_from_account(b.get_account_cash_balance(cur) + x)
            over_of = b.get_account_cash_balance(cur)
        elif kind == 'unk_psub':
            call, exp = (lambda: b.subscribe_funds_to_portfolio('nope', min(x, b.get_account_cash_balance(cur)))), KE
        elif kind == 'unk_pwd':
            call, exp = (lambda: b.withdraw_funds_from_portfolio('nope', x)), KE
        elif kind == 'unk_order_int':
            # portfolio '1234' (a string id) exists; an order under the integer 1234 names no portfolio
            if '1234' not in b.portfolios:
                return
            call, exp = (lambda: b.submit_order(1234, q.Order(b.current_dt, self.assets[0], 5))), KE
        elif kind == 'unk_order':
            call, exp = (lambda: b.submit_order('nope', q.Order(b.current_dt, self.assets[0], 5))), KE
        elif kind == 'cur':
            code = self.BAD_CODES[(2 * pi + (1 if x >= 1 else 0) + (3 if x < 0.005 else 0) + int(x * 100)) % (len(self.BAD_CODES) - 1)]
            call = lambda: b.get_account_cash_balance(code)          # (None is a valid argument here: all balances)
        elif kind == 'cur_ctor':
            # codes outside the supported list, incl. ones that differ from a supported code only in case
            code = self.BAD_CODES[(2 * pi + (1 if x >= 1 else 0) + (3 if x < 0.005 else 0) + int(x * 100)) % len(self.BAD_CODES)]
            call = lambda: q.SimulatedBroker(b.current_dt, b.exchange, self.dh, base_currency=code,
                                             initial_funds=1000.0 if int(x) % 2 else 0.0)
        elif kind == 'neg_init':
            call = lambda: q.SimulatedBroker(b.current_dt, b.exchange, self.dh, initial_funds=-x)
        elif kind == 'unk_get_cash':
            call = lambda: b.get_portfolio_cash_balance('nope')
        elif kind == 'unk_get_mv':
            call, exp = (lambda: b.get_portfolio_total_market_value('nope')), KE
        elif kind == 'unk_get_equity':
            call, exp = (lambda: b.get_portfolio_total_equity('nope')), KE
        elif kind == 'unk_get_dict':
            call, exp = (lambda: b.get_portfolio_as_dict('nope')), KE
        elif kind == 'multi_unk_neg':
            call, exp = (lambda: b.subscribe_funds_to_portfolio('nope', -x)), VE + KE
        elif kind == 'neg_quote_update':
            # every held asset is quoted negative (a bad print) when the broker updates at its current time: the very
            # first re-mark is refused, nothing listed may change; the harness then puts the quotes back
            held_assets = sorted(set(a_ for p_ in b.portfolios.values() for a_ in p_.pos_handler.positions))
            if not held_assets:
                return
            saved_q = {a_: self.dh.q[a_] for a_ in held_assets}
            now_ = max([b.current_dt] + [p_.current_dt for p_ in b.portfolios.values()])
            if now_ != b.current_dt:
                return

            def call():
                try:
                    for a_ in held_assets:
                        self.dh.q[a_] = (-abs(saved_q[a_][0]) - 0.5, -abs(saved_q[a_][1]) - 0.5)
                    b.update(now_)
                finally:
                    self.dh.q.update(saved_q)
            self.flags.add('update_with_negative_quotes')
        elif kind == 'stale_update':
            # a broker update to a time earlier than the clock of every portfolio that holds a position: the first
            # re-mark is refused by that portfolio, so nothing listed may change.  (update() assigns the broker's own
            # clock before validating - not one of the listed items - so the harness puts that clock back.)
            holders = [p_ for p_ in b.portfolios.values() if p_.pos_handler.positions]
            if not holders:
                return
            et = min(p_.current_dt for p_ in holders) - pd.Timedelta(minutes=1 if x < 50 else 1440)
            saved_clock = b.current_dt

            def call():
                try:
                    b.update(et)
                finally:
                    b.current_dt = saved_clock
            self.flags.add('stale_broker_update')
        elif pid is None:
            return
        elif kind == 'neg_psub':
            call = lambda: b.subscribe_funds_to_portfolio(pid, -x)
        elif kind == 'over_psub':
            call = lambda: b.subscribe_funds_to_portfolio(pid, b.get_account_cash_balance(cur) + x)
            over_of = b.get_account_cash_balance(cur)
        elif kind == 'neg_pwd':
            call = lambda: b.withdraw_funds_from_portfolio(pid, -x)
        elif kind == 'over_pwd':
            call = lambda: b.withdraw_funds_from_portfolio(pid, max(0.0, port.cash) + x)
            over_of = port.cash
            if port.cash < 0:
                self.flags.add('over_pwd_with_negative_cash')
        elif kind == 'dup':
            call = lambda: b.create_portfolio(pid)
        elif kind == 'dup_named':
            call = lambda: b.create_portfolio(pid, name='Another name %r' % x)
        elif kind == 'stale_mark':
            # a late quote stamped before the position's last price time but not before the portfolio's own clock
            # (re-marks advance the position's clock only): refused by the position, and the price must stay
            late = [(a_, p_) for a_, p_ in port.pos_handler.positions.items() if p_.current_dt > port.current_dt]
            if not late:
                return
            a_, p_ = late[0]
            call = lambda: port.update_market_value_of_asset(a_, p_.current_price * 1.7 + 0.01, port.current_dt)
            self.flags.add('late_quote_older_than_last_mark')
        elif kind == 'remark_same_stamp':
            # the portfolio's clock has moved on (a deposit, a fill in another asset) since a position was last marked; a
            # mark carrying that earlier mark's very timestamp again is earlier than the portfolio's clock: refused
            old_ = [(a_, p_) for a_, p_ in port.pos_handler.positions.items() if p_.current_dt < port.current_dt]
            if not old_:
                return
            a_, p_ = old_[0]
            call = lambda: port.update_market_value_of_asset(a_, p_.current_price * 0.9 + 0.01, p_.current_dt)
            self.flags.add('mark_repeating_the_previous_mark_time_after_the_clock_moved_on')
        elif kind == 'dup_int':
            if '1234' not in b.portfolios:
                return
            call = lambda: b.create_portfolio(1234)
        elif kind in ('early_sub', 'early_wd', 'early_txn', 'early_mark', 'early_mark_nan'):
            # earlier than the portfolio's clock as the history implies it (creation, transfers, fills)
            et = self.pclock[pid] - pd.Timedelta(minutes=1 if x < 50 else 1440)
            if int(x * 100) % 2:
                et = et.tz_convert('Asia/Tokyo')        # the same (earlier) instant, written in another time zone
                self.flags.add('early_request_in_other_time_zone')
            if kind == 'early_sub':
                call = lambda: port.subscribe_funds(et, x)
            elif kind == 'early_wd':
                call = lambda: port.withdraw_funds(et, 0.0)
            elif kind == 'early_txn':
                call = lambda: port.transact_asset(q.Transaction(self.assets[0], 5, et, 10.0, 'early', commission=0.0))
            else:
                if not port.pos_handler.positions:
                    return
                a = next(iter(port.pos_handler.positions))
                px = float('nan') if kind == 'early_mark_nan' else 10.0      # (an early mark without a price is early all the same)
                call = lambda: port.update_market_value_of_asset(a, px, et)
        elif kind == 'zero_mark':
            # a quote of exactly zero for a held asset: the position refuses it (prices must be positive)
            if not port.pos_handler.positions:
                return
            a = next(iter(port.pos_handler.positions))
            call = lambda: port.update_market_value_of_asset(a, 0.0, max(b.current_dt, port.current_dt))
        elif kind == 'neg_mark':
            if not port.pos_handler.positions:
                return
            a = next(iter(port.pos_handler.positions))
            ahead = pd.Timedelta(minutes=45 if int(x * 100) % 2 else 0)      # also future-dated bad ticks
            call = lambda: port.update_market_value_of_asset(a, -max(x, 0.01), max(b.current_dt, port.current_dt) + ahead)
        elif kind == 'p_neg_sub':
            call = lambda: port.subscribe_funds(port.current_dt, -max(x, 0.01))
        elif kind == 'p_neg_wd':
            call = lambda: port.withdraw_funds(port.current_dt, -max(x, 0.01))
        elif kind == 'p_over_wd':
            call = lambda: port.withdraw_funds(port.current_dt, max(0.0, port.cash) + x)
            over_of = port.cash
        elif kind in ('lead_psub', 'lead_pwd'):
            # a valid future-dated direct deposit makes the portfolio clock lead the broker clock; until the
            # broker catches up the portfolio refuses broker-level transfers and the master must stay untouched
            later = max(b.current_dt, port.current_dt) + pd.Timedelta(minutes=30)
            port.subscribe_funds(later, x)
            self.pclock[pid] = max(self.pclock[pid], later)
            self.cash[pid] += F(x)
            self.hist[pid].append(('subscription', F(x), self.cash[pid]))
            self._bump(pid, F(x), self.cash[pid])
            if not any(p_.pos_handler.positions for p_ in b.portfolios.values()) and not any(self.pend[p_] for p_ in self.pids):
                # (nothing to re-mark, nothing to fill: an update at the broker's current time changes nothing - and does
                # not make the portfolio forget that its own clock is ahead)
                b.update(b.current_dt)
                self.flags.add('update_while_portfolio_clock_leads')
            before = snapshot(b)
            if kind == 'lead_psub':
                amt = min(1.0, b.get_account_cash_balance(cur))
                call = lambda: b.subscribe_funds_to_portfolio(pid, amt)
            else:
                amt = min(1.0, max(port.cash, 0.0))
                call = lambda: b.withdraw_funds_from_portfolio(pid, amt)
        else:
            raise RuntimeError('unknown bad kind %r' % kind)
        if kind in ('neg_asub', 'neg_awd', 'neg_psub', 'neg_pwd', 'multi_unk_neg', 'neg_init') and x <= 0:
            return
        if kind in ('over_awd', 'over_psub', 'over_pwd', 'p_over_wd'):
            # only a request that really exceeds the balance in floating point is invalid
            if x <= 0 or not (max(0.0, over_of) + x > over_of):
                return
            if x < 0.005:
                self.flags.add('sub_cent_excess')
        n_tx = len(self.txlog)
        raised = None
        try:
            call()
        except Exception as e:                                   # noqa
            raised = e
        del self.txlog[n_tx:]
        self._applied = min(self._applied, len(self.txlog))
        if raised is None:
            raise Violation('invalid request %s (%s, x=%r) was silently accepted' % (kind, pid, x))
        after = snapshot(b)
        d = diff_snap(before, after)
        if d:
            raise Violation('refused request %s (%s: %s) changed state: %s' % (kind, type(raised).__name__, raised, d))
        if not isinstance(raised, exp):
            raise Violation('refused request %s raised %s (%s); documented type is %s' % (
                kind, type(raised).__name__, raised, '/'.join(t.__name__ for t in exp)))
        self.seen_kinds.add(kind)
        self.count('refusals')
        nfill = self.counts.get('fills', 0)
        if nfill and any(self.pend[p] for p in self.pids):
            self.flags.add('refusal_after_fill_with_pending')

    # ------------------------------------------------------------------------------------------ fills
    def _apply_fills(self, upto=None):
        """Apply the not yet applied tapped transactions to the model (price, qty, commission as tapped)."""
        lo = self._applied
        hi = len(self.txlog) if upto is None else upto
        self._applied = hi
        for tapped_pid, txn in self.txlog[lo:hi]:
            # a fill belongs to the portfolio its order was submitted to
            outs = self.submitted.get(txn.order_id) or []
            k = next((i for i, s_ in enumerate(outs) if s_[0] == tapped_pid), 0)
            pid = outs.pop(k)[0] if outs else tapped_pid
            if pid != tapped_pid:
                self.count('fills_booked_elsewhere')
            cost = F(float(txn.price)) * int(txn.quantity) + F(float(txn.commission))
            self.cash[pid] -= cost
            self.hist[pid].append(('asset_transaction', -cost, self.cash[pid]))
            self._bump(pid, cost, self.cash[pid])
            old = self.net[pid].get(txn.asset, 0)
            new = old + int(txn.quantity)
            self.net[pid][txn.asset] = new
            if int(txn.quantity) != 0:          # a zero-quantity fill books nothing, so it is no price observation either
                self.last[pid][txn.asset] = F(float(txn.price))
            self.filled[txn.order_id] = self.filled.get(txn.order_id, 0) + 1
            for i_, x_ in enumerate(self.pend[pid]):
                if x_[0] == txn.order_id:
                    del self.pend[pid][i_]
                    break
            self.count('fills')
            if tapped_pid in self.pclock:
                self.pclock[tapped_pid] = max(self.pclock[tapped_pid], txn.dt)
            if txn.commission != 0:
                self.flags.add('fill_with_commission')
            if old != 0 and new == 0:
                self.flags.add('closed_to_zero')
            if old == 0 and txn.asset in self.closed_assets(pid):
                self.flags.add('reopened')
            if old != 0 and new != 0 and (old > 0) != (new > 0):
                self.flags.add('flipped')
            if new == 0:
                self._closed.setdefault(pid, set()).add(txn.asset)
            if self.cash[pid] < 0:
                self.flags.add('negative_cash')
            if abs(int(txn.quantity)) == 1:
                self.flags.add('qty_1')
            if txn.price <= 1.0:
                self.flags.add('price_le_1')
            bq = self.dh.q.get(txn.asset)
            if bq and bq[0] != bq[1]:
                self.flags.add('fill_with_spread')

    def closed_assets(self, pid):
        return self._closed.get(pid, set())

    def _check_fills(self, held, pend_before, is_open, n_tx, before):
        new = self.txlog[n_tx:]
        b = self.b
        if not is_open:
            if new:
                raise Violation('filled %s at %s (%s) outside exchange hours' % (
                    [(p, t.asset, t.quantity) for p, t in new], self.t, self.t.day_name()))
            d = diff_snap(strip_marks(before), strip_marks(snapshot(b)))
            if d:
                raise Violation('update at %s outside exchange hours changed state: %s' % (self.t, d))
            return
        # across the whole update (all portfolios): once a buy has been filled no sell follows
        seq = [(p, t.asset, t.quantity) for p, t in new]
        first_buy = next((i for i, x in enumerate(seq) if x[2] >= 0), None)
        if first_buy is not None and any(x[2] < 0 for x in seq[first_buy:]):
            raise Violation('update at %s (open) filled in the order %s: a sell follows a buy' % (self.t, seq))
        if len(set(p for p, _, _ in seq)) > 1 and any(x[2] < 0 for x in seq) and any(x[2] >= 0 for x in seq):
            self.flags.add('sells_and_buys_across_portfolios')
        for pid in self.pids:
            exp = sorted(pend_before[pid], key=lambda x: 0 if x[2] < 0 else 1)      # stable: FIFO inside a side
            got = [(t.order_id, t.asset, t.quantity) for p, t in new if p == pid]
            if got != exp:
                raise Violation('update at %s (open): portfolio %s filled %s, pending were %s '
                                '(expected sells first, submission order inside a side)' % (
                                    self.t, pid, [(a, n) for _, a, n in got], [(a, n) for _, a, n in exp]))
            for p, t in new:
                if p == pid and t.dt != self.t:
                    raise Violation('fill stamped %s at update time %s' % (t.dt, self.t))
            if not b.open_orders[pid].empty():
                raise Violation('orders still queued for %s after an open-hours update' % pid)
            h0 = len(before[1][pid][3])
            newh = b.portfolios[pid].history[h0:]
            if [e.type for e in newh] != ['asset_transaction'] * len(exp) or any(e.dt != self.t for e in newh):
                raise Violation('history of %s gained %s for %d fills at %s' % (
                    pid, [(e.dt, e.type) for e in newh], len(exp), self.t))
            q0 = {a: d['quantity'] for a, d in before[1][pid][1].items()}
            q1 = {a: d['quantity'] for a, d in b.portfolios[pid].portfolio_to_dict().items()}
            for a in set(q0) | set(q1) | set(x[1] for x in exp):
                delta = sum(n for _, aa, n in exp if aa == a)
                if q1.get(a, 0) - q0.get(a, 0) != delta:
                    raise Violation('holdings of %s in %s moved by %r, orders sum to %r' % (
                        a, pid, q1.get(a, 0) - q0.get(a, 0), delta))
            if pend_before[pid] != exp:
                self.flags.add('buy_submitted_before_sell')
            if len(exp) >= 2:
                self.flags.add('batch_of_2plus')

    # ------------------------------------------------------------------------------------------ invariants
    def _invariants(self, op):
        mode = self.mode
        b = self.b
        if mode == 'C01':
            self._inv_c01(op)
        elif mode == 'C02':
            self._inv_c02(op)
        elif mode == 'C04':
            # every order: filled exactly once or still pending, never both, never twice
            queued = {}
            for pid in self.pids:
                for oid in queue_ids(b, pid):
                    queued[oid] = queued.get(oid, 0) + 1
            for oid, n in self.filled.items():
                if n > self.nsub.get(oid, 0):
                    raise Violation('order %s was submitted %d time(s) and filled %d times' % (oid, self.nsub.get(oid, 0), n))
            for oid, n in self.nsub.items():
                if self.filled.get(oid, 0) + queued.get(oid, 0) != n:
                    raise Violation('order %s was submitted %d time(s): %d fill(s) and %d still queued' % (
                        oid, n, self.filled.get(oid, 0), queued.get(oid, 0)))
            for pid in self.pids:
                ql = queue_ids(b, pid)
                if ql != [x[0] for x in self.pend[pid]]:
                    raise Violation('queue of %s holds %d orders, model has %d pending' % (
                        pid, len(ql), len(self.pend[pid])))

    def _tol(self, acct, extra=F(0)):
        return 1e-9 * float(max(self.mag.get(acct, F(0)), abs(extra))) + 1e-12

    def _inv_c01(self, op):
        b = self.b
        real_master = b.get_account_cash_balance(b.base_currency)
        if abs(real_master - float(self.master)) > self._tol('#account', self.master):
            raise Violation('after %s: master cash %r, ledger says %r' % (op, real_master, float(self.master)))
        for ccy, bal in b.get_account_cash_balance().items():
            if ccy != b.base_currency and bal != 0.0:
                raise Violation('after %s: the %s master balance is %r although the account is denominated in %s' % (
                    op, ccy, bal, b.base_currency))
        for pid in self.pids:
            if b.portfolios[pid].currency != b.base_currency:
                raise Violation('portfolio %s is denominated in %s, the account in %s' % (
                    pid, b.portfolios[pid].currency, b.base_currency))
        for pid in self.pids:
            c = b.get_portfolio_cash_balance(pid)
            if abs(c - float(self.cash[pid])) > self._tol(pid, self.cash[pid]):
                raise Violation('after %s: cash of %s is %r, ledger (transfers - fills) says %r' % (
                    op, pid, c, float(self.cash[pid])))
        # account-level totals are always obtainable and equal the per-portfolio figures
        try:
            te = b.get_account_total_equity()
        except Exception as e:                                   # noqa
            raise Violation('get_account_total_equity() raised %s: %s' % (type(e).__name__, e))
        try:
            tmv = b.get_account_total_market_value()
        except Exception as e:                                   # noqa
            raise Violation('get_account_total_market_value() raised %s: %s' % (type(e).__name__, e))
        for name, agg, getter in (('equity', te, b.get_portfolio_total_equity),
                                  ('market value', tmv, b.get_portfolio_total_market_value)):
            if agg is None:
                continue
            if set(agg.keys()) != set(self.pids) | {'master'}:
                raise Violation('account total %s has keys %s, portfolios are %s' % (name, sorted(agg), self.pids))
            tot = 0.0
            big = 1.0
            for pid in self.pids:
                v = getter(pid)
                # (a portfolio that is itself called 'master' shares its key with the account total: the total it is)
                if agg[pid] != v and pid != 'master':
                    raise Violation('account total %s entry for %s is %r, the portfolio reports %r' % (
                        name, pid, agg[pid], v))
                tot += v
                big = max(big, abs(v))
            if abs(agg['master'] - tot) > 1e-9 * big:
                raise Violation('account total %s master %r != sum of portfolios %r' % (name, agg['master'], tot))
        # the event history lists exactly the cash movements, in order, rounded to cents
        for pid in self.pids:
            h = b.portfolios[pid].history
            exp = self.hist[pid]
            if len(h) != len(exp):
                raise Violation('after %s: history of %s has %d events, %d cash movements happened (%s)' % (
                    op, pid, len(h), len(exp), [e.type for e in h][-3:]))
            lo = max(0, len(h) - 3)
            if self.nsteps % 10 == 0 or op[0] == 'final':
                lo = 0
            for e, (ty, amt, run) in list(zip(h, exp))[lo:]:
                if e.type != ty:
                    raise Violation('history event %s of %s should be a %s' % (e, pid, ty))
                for label, got, want in (('amount', e.credit - e.debit, amt), ('balance', e.balance, run)):
                    w = float(want)
                    if abs(got - w) > 0.005 + 1e-9 * abs(w) + 1e-9 * float(self.mag[pid]):
                        raise Violation('history %s of %s: %s %r, true value %r (event %s)' % (label, pid, label, got, w, e))
                    c = got * 100.0
                    if abs(c - round(c)) > 1e-10 * abs(c) + 1e-6:
                        raise Violation('history %s %r of %s is not a whole number of cents' % (label, got, pid))
            if op[0] == 'final' and len(h):
                df = b.portfolios[pid].history_to_df()
                rows = list(zip(df['type'], df['debit'], df['credit'], df['balance']))
                if rows != [(e.type, e.debit, e.credit, e.balance) for e in h]:
                    raise Violation('history_to_df() rows of %s differ from the event list' % pid)

    def _inv_c02(self, op):
        b = self.b
        for pid in self.pids:
            port = b.portfolios[pid]
            d = port.portfolio_to_dict()
            want = {a: n for a, n in self.net[pid].items() if n != 0}
            got = {a: x['quantity'] for a, x in d.items()}
            if got != want:
                raise Violation('after %s: holdings of %s are %r, fills net to %r' % (op, pid, got, want))
            mv = F(0)
            gross = F(0)
            for a, n in want.items():
                v = n * self.last[pid][a]
                mv += v
                gross += abs(v)
                if abs(d[a]['market_value'] - float(v)) > 1e-9 * float(abs(v)) + 1e-12:
                    raise Violation('after %s: market value of %s in %s is %r, quantity %d x latest price %r = %r' % (
                        op, a, pid, d[a]['market_value'], n, float(self.last[pid][a]), float(v)))
            tmv = b.get_portfolio_total_market_value(pid)
            if abs(tmv - float(mv)) > 1e-9 * float(gross) + 1e-12:
                raise Violation('after %s: total market value of %s is %r, sum of quantity x latest price is %r' % (
                    op, pid, tmv, float(mv)))
            te = b.get_portfolio_total_equity(pid)
            cash = port.cash
            if abs(te - (cash + float(mv))) > 1e-9 * (float(gross) + abs(cash)) + 1e-12:
                raise Violation('after %s: total equity of %s is %r, cash %r + market value %r' % (
                    op, pid, te, cash, float(mv)))

    # ------------------------------------------------------------------------------------------ end of history
    def finish(self):
        if self.b is None:
            return
        self._invariants(['final'])

    def result(self):
        f = self.flags
        cls = set(f)
        cls.add('portfolios_%d' % len(self.pids))
        nfill = self.counts.get('fills', 0)
        if nfill:
            cls.add('has_fill')
        if self.mode == 'C01':
            nt = ((('fill_with_commission' in f) or ('fill_with_spread' in f)) and 'transfer_in' in f and
                  'transfer_out' in f and (len(self.pids) >= 2 or 'negative_cash' in f or 'flipped' in f))
        elif self.mode == 'C02':
            nt = ('reopened' in f or 'flipped' in f) and nfill >= 2
        elif self.mode == 'C04':
            nt = 'waited_closed' in f and nfill >= 1 and 'boundary_instant' in f
        else:
            for k in self.seen_kinds:
                cls.add('refused_' + k)
            nt = len(self.seen_kinds) >= 3 and 'refusal_after_fill_with_pending' in f
        info = dict(self.counts)
        info['steps'] = self.nsteps
        info['valid_ops'] = self.valid_ops
        info['unexpected_refusals'] = self.refused_valid
        return Result(sorted(cls), nontrivial=nt, info=info)


def _drop_queue(s):
    return (s[0], {pid: (v[0], v[1], None, v[3]) for pid, v in s[1].items()}, s[2], s[3])


# ----------------------------------------------------------------------------------------------------------
# generation

def _r(x, n=6):
    return float('%.*g' % (n, x))


amount_st = st.one_of(st.floats(1.0, 1e6).map(lambda x: _r(x, 7)), st.sampled_from(SMALL_AMOUNTS),
                      st.floats(0.0, 100.0).map(lambda x: _r(x, 4)))
take_st = st.one_of(st.tuples(st.just('frac'), st.sampled_from([0.5, 1.0, 0.3, 0.0, 0.999])),
                    st.tuples(st.just('abs'), st.sampled_from(SMALL_AMOUNTS + [100.0, 2500.0]))).map(list)
price_st = st.one_of(st.floats(1.0, 500.0).map(lambda x: _r(x, 5)), st.floats(0.01, 1.0).map(lambda x: _r(x, 3)),
                     st.sampled_from([0.01, 0.5, 1.0, 1.5]))


@st.composite
def quote_st(draw):
    p = draw(price_st)
    k = draw(st.sampled_from(['spread', 'spread', 'locked']))
    if k == 'locked':
        return [p, p]
    s = draw(st.sampled_from([0.001, 0.002, 0.01, 0.05]))
    return [_r(p * (1 - s), 7), p]


@st.composite
def config_st(draw, fees=True):
    d = D.date(2021, 3, 1) + D.timedelta(days=draw(st.integers(0, 13)))
    tod = draw(st.sampled_from(TODS + OPEN_TODS))
    n = draw(st.integers(1, 5))
    assets = ASSETS[:n]
    if fees:
        fee = draw(st.one_of(st.none(), st.just('default'),
                             st.tuples(st.floats(0.001, 0.2), st.floats(0.001, 0.2)).map(lambda t: [_r(t[0], 3), _r(t[1], 3)]),
                             st.sampled_from([[0.001, 0.0], [0.0, 0.005], [0.001, 0.005]])))
    else:
        fee = None
    return {
        'start': [d.year, d.month, d.day] + list(tod),
        'assets': assets,
        'quotes': {a: draw(quote_st()) for a in assets},
        'initial_funds': draw(st.one_of(st.floats(1e3, 1e6).map(lambda x: _r(x, 7)), st.sampled_from([0.0, 1.0, 1e6, 0.5]))),
        'fee': fee,
        'currency': draw(st.sampled_from(['USD', 'USD', 'GBP', 'EUR'])),
        'exchange_lead_days': draw(st.sampled_from([0, 0, 0, 12, 400])),
    }


clock_st = st.tuples(st.just('clock'), st.sampled_from([0, 0, 0, 1, 1, 2, 3, 7, 28, 30, 31, 61]),
                     st.one_of(st.sampled_from(OPEN_TODS), st.sampled_from(TODS)).map(list)).map(list)


def make_machine(mode, rec, part):
    """Rule-based machine generating ops for `mode`; `rec` is the shard recorder."""

    class M(RuleBasedStateMachine):
        def __init__(self):
            super().__init__()
            self.ops = []
            self.h = None
            self.failed = False

        def _do(self, op):
            if rec.guard():
                return
            if op[0] == 'init':
                self.h = part.new_harness()
                rec.evals += 1
            if self.h is None:
                return
            self.ops.append(op)
            try:
                self.h.step(op)
            except Violation as v:
                self.failed = True
                rec.failure(list(self.ops), str(v))
                raise CaseFailed(str(v))
            except CaseFailed:
                raise
            except Exception as e:                               # noqa
                import traceback
                self.failed = True
                if sut_frames(e.__traceback__):
                    msg = 'code under test raised %s: %s' % (type(e).__name__, e)
                    rec.failure(list(self.ops), msg + '\n' + traceback.format_exc())
                    raise CaseFailed(msg)
                rec.errors.append(traceback.format_exc())
                rec.save(list(self.ops), 'error', traceback.format_exc())
                raise

        def teardown(self):
            if self.h is None or self.failed or rec.guard():
                return
            try:
                self.h.finish()
            except Violation as v:
                ops = list(self.ops) + [['final']]
                rec.failure(ops, str(v))
                raise CaseFailed(str(v))
            rec.done(self.ops, self.h.result())

        @initialize(cfg=config_st(fees=(mode != 'C04')), nport=st.sampled_from([0, 1, 1, 2, 2, 3]),
                    fund=st.sampled_from([0.0, 0.2, 0.3, 0.5]))
        def init(self, cfg, nport, fund):
            self._do(['init', cfg])
            for i in range(nport):
                self._do(['create'])
                self._do(['psub', i, ['frac', fund]])

        @rule(a=amount_st)
        def asub(self, a):
            self._do(['asub', a])

        @rule(t=take_st)
        def awd(self, t):
            self._do(['awd', t])

        @precondition(lambda self: self.h is not None and len(self.h.pids) < 4)
        @rule(name=st.sampled_from([None] * 5 + ['master']))
        def create(self, name):
            # (portfolio ids are free text: one may be called like the account-level total, 'master')
            self._do(['create'] if name is None else ['create', name])

        @precondition(lambda self: self.h is not None and self.h.pids)
        @rule(p=st.integers(0, 3), t=take_st)
        def psub(self, p, t):
            self._do(['psub', p, t])

        @precondition(lambda self: self.h is not None and self.h.pids)
        @rule(p=st.integers(0, 3), t=take_st)
        def pwd(self, p, t):
            self._do(['pwd', p, t])

        @precondition(lambda self: self.h is not None and self.h.pids)
        @rule(p=st.integers(0, 3), a=st.integers(0, 4), how=st.sampled_from(['any', 'any', 'any', 'close', 'flip']),
              mag=st.one_of(st.sampled_from([1, 1, 2, 3, 5, 10, 100]), st.integers(1, 500)),
              sign=st.sampled_from([1, 1, -1]))
        def order(self, p, a, how, mag, sign):
            self._do(['order', p, a, how, mag, sign])

        @precondition(lambda self: self.h is not None and self.h.pids)
        @rule(p=st.integers(0, 3), a=st.integers(0, 4), mag=st.sampled_from([1, 2, 7, 100]), sign=st.sampled_from([1, -1]),
              variant=st.sampled_from(['resubmit', 'late_quote', 'late_quote', 'zero']))
        def order_variant(self, p, a, mag, sign, variant):
            self._do(['order', p, a, 'any', mag, sign, variant])

        @precondition(lambda self: self.h is not None and self.h.pids)
        @rule(p=st.integers(0, 3), a=st.integers(0, 4), how=st.sampled_from(['any', 'any', 'close', 'flip']),
              mag=st.one_of(st.sampled_from([1, 1, 2, 3, 5, 10, 100]), st.integers(1, 500)),
              sign=st.sampled_from([1, -1]))
        def order2(self, p, a, how, mag, sign):
            self._do(['order', p, a, how, mag, sign])

        @precondition(lambda self: self.h is not None and self.h.pids)
        @rule(p=st.integers(0, 3), a=st.integers(0, 4), mag=st.sampled_from([1, 2, 5, 50]), sign=st.sampled_from([1, -1]),
              dd=st.sampled_from([0, 0, 1]), tod=st.sampled_from(OPEN_TODS))
        def order_and_fill(self, p, a, mag, sign, dd, tod):
            self._do(['order', p, a, 'any', mag, sign])
            self._do(['clock', dd, list(tod)])

        @precondition(lambda self: self.h is not None and self.h.pids)
        @rule(p=st.integers(0, 3), a=st.integers(0, 4), mag=st.sampled_from([1, 2, 5, 50]), dd=st.sampled_from([0, 0, 1]),
              tod=st.sampled_from(OPEN_TODS), bad=st.sampled_from([None, 'neg_quote_update', 'stale_update', 'stale_mark']))
        def swap_and_fill(self, p, a, mag, dd, tod, bad):
            self._do(['order', p, a, 'any', mag, 1, 'swap'])
            self._do(['clock', dd, list(tod)])
            if bad:
                self._do(['bad', bad, p, 1.0])

        @precondition(lambda self: self.h is not None and self.h.pids)
        @rule(p=st.integers(0, 3), minutes=st.sampled_from([1, 30, 600]))
        def deposit_then_mark_at_the_old_stamp(self, p, minutes):
            self._do(['pdeposit', p, minutes, 1.0])
            self._do(['bad', 'remark_same_stamp', p, 1.0])

        @rule(dd=st.sampled_from([0, 0, 1, 3, 28, 30, 31]), tod=st.sampled_from(OPEN_TODS))
        def clock_open(self, dd, tod):
            self._do(['clock', dd, list(tod)])

        @precondition(lambda self: self.h is not None and self.h.pids)
        @rule(p=st.integers(0, 3), specs=st.lists(st.tuples(st.integers(0, 4), st.sampled_from([1, -1, 2, -3, 10, -25, 100])).map(list),
                                                  min_size=1, max_size=4),
              submit=st.sampled_from([True, True, True, False]))
        def exec_batch(self, p, specs, submit):
            self._do(['exec', p, specs, submit])

        @precondition(lambda self: self.h is not None and self.h.pids)
        @rule(p=st.integers(0, 3), minutes=st.sampled_from([0, 1, 30, 600]), amount=st.sampled_from([0.0, 1.0, 250.0, 1e4]))
        def direct_deposit(self, p, minutes, amount):
            self._do(['pdeposit', p, minutes, amount])

        @precondition(lambda self: self.h is not None and self.h.pids)
        @rule(p=st.integers(0, 3), a=st.integers(0, 4), qty=st.sampled_from([1, 10, 250, -3, -40]))
        def direct_fill(self, p, a, qty):
            self._do(['pfill', p, a, qty])

        @precondition(lambda self: self.h is not None and self.h.pids)
        @rule(kind=st.sampled_from(['early_mark', 'neg_mark', 'stale_mark', 'stale_mark', 'stale_update', 'over_pwd', 'p_over_wd',
                                    'early_mark_nan', 'neg_quote_update', 'zero_mark', 'early_sub', 'early_txn', 'dup', 'dup']),
              p=st.integers(0, 3), x=st.sampled_from([0.01, 1.0, 250.0]))
        def refused_in_between(self, kind, p, x):
            # requests that must be refused and leave no trace, in every mode (the full catalogue is C15's)
            self._do(['bad', kind, p, x])

        @precondition(lambda self: self.h is not None and self.h.pids)
        @rule(p=st.integers(0, 3), a=st.integers(0, 4), tod=st.sampled_from(OPEN_TODS), kind=st.sampled_from(['early_sub', 'early_txn', 'early_wd']))
        def close_then_early(self, p, a, tod, kind):
            # a position is closed out completely; a request stamped before that closing fill is then refused
            self._do(['order', p, a, 'any', 3, 1])
            self._do(['clock', 0, list(tod)])
            self._do(['order', p, a, 'close', 1, 1])
            self._do(['clock', 1, list(tod)])
            self._do(['bad', kind, p, 1.0])

        @precondition(lambda self: self.h is not None)
        @rule()
        def queries(self):
            self._do(['getters'])

        @rule(a=st.integers(0, 4), qt=quote_st())
        def quote(self, a, qt):
            self._do(['quote', a, qt[0], qt[1]])

        @rule(c=clock_st)
        def clock(self, c):
            self._do(c)

        @rule(c=clock_st)
        def clock2(self, c):
            self._do(c)

    M.__name__ = 'Broker_%s' % mode
    return M


def run_ops(mode, ops, new_harness):
    h = new_harness()
    for op in ops:
        if op[0] == 'final':
            break
        h.step(op)
    h.finish()
    return h.result()
