"""Harness-side building blocks: stub data handler, transaction tap, exact helpers."""
import math
from fractions import Fraction as F

import pandas as pd

from vlib.sut import load

ASSET_POOL = ['EQ:A', 'EQ:AB', 'EQ:A_1', 'EQ:B', 'EQ:C', 'EQ:SPY', 'EQ:Z9', 'EQ:AGG']

T_OPEN = pd.Timestamp('2020-01-06 15:00:00', tz='UTC')      # a Monday, inside exchange hours
T_CLOSE = pd.Timestamp('2020-01-06 21:00:00', tz='UTC')


class StubDH(object):
    """Data handler with a settable quote table: asset -> (bid, ask).  Unknown asset -> NaN."""

    def __init__(self, quotes=None):
        self.q = dict(quotes or {})
        self.calls = []
        self.before = None          # optional (instant, factor): instants earlier than that are quoted at factor x the table

    def set(self, asset, bid, ask=None):
        self.q[asset] = (bid, bid if ask is None else ask)

    def _at(self, dt, asset):
        b, a = self.q.get(asset, (float('nan'), float('nan')))
        if self.before is not None and dt < self.before[0]:
            return (b * self.before[1], a * self.before[1])
        return (b, a)

    def get_asset_latest_bid_price(self, dt, asset):
        return self._at(dt, asset)[0]

    def get_asset_latest_ask_price(self, dt, asset):
        return self._at(dt, asset)[1]

    def get_asset_latest_bid_ask_price(self, dt, asset):
        return self._at(dt, asset)

    def get_asset_latest_mid_price(self, dt, asset):
        b, a = self._at(dt, asset)
        return (b + a) / 2.0


class SpreadSource(object):
    """A data source quoting a spread around another source: bid = inner bid, ask = inner ask x (1 + spread).
    (The shipped CSV source quotes bid == ask; the handler and its callers are written against get_bid / get_ask.)"""

    def __init__(self, inner, spread):
        self.inner, self.spread = inner, spread

    def get_bid(self, dt, asset):
        return self.inner.get_bid(dt, asset)

    def get_ask(self, dt, asset):
        return self.inner.get_ask(dt, asset) * (1.0 + self.spread)

    def get_assets_historical_closes(self, start_dt, end_dt, assets):
        return self.inner.get_assets_historical_closes(start_dt, end_dt, assets)


class CoverageSource(object):
    """A data source that refuses (raises) instants it has no observation for - a vendor API that rejects requests
    before its coverage - instead of answering NaN as the shipped CSV source does."""

    def __init__(self, inner):
        self.inner = inner

    def _ask(self, f, dt, asset):
        v = f(dt, asset)
        if v != v:
            raise ValueError('%s is outside the coverage for %s' % (dt, asset))
        return v

    def get_bid(self, dt, asset):
        return self._ask(self.inner.get_bid, dt, asset)

    def get_ask(self, dt, asset):
        return self._ask(self.inner.get_ask, dt, asset)

    def get_assets_historical_closes(self, start_dt, end_dt, assets):
        return self.inner.get_assets_historical_closes(start_dt, end_dt, assets)


def fee_model(fee):
    """fee: None -> ZeroFeeModel, 'default' -> PercentFeeModel(), [c, t] -> PercentFeeModel(c, t)"""
    q = load()
    if fee is None:
        return q.ZeroFeeModel()
    if fee == 'default':
        return q.PercentFeeModel()
    # the two rates are the documented first and second arguments: by keyword, or (odd calls) by position
    fee_model.calls = getattr(fee_model, 'calls', 0) + 1
    if fee_model.calls % 2:
        return q.PercentFeeModel(fee[0], fee[1])
    return q.PercentFeeModel(commission_pct=fee[0], tax_pct=fee[1])


def fee_rate(fee):
    if fee is None or fee == 'default':
        return F(0)
    return F(fee[0]) + F(fee[1])


def tap(portfolio, log, tag=None):
    """Instance-level wrapper around Portfolio.transact_asset that logs each Transaction first."""
    orig = portfolio.transact_asset

    def wrapped(txn):
        log.append((tag, txn))
        return orig(txn)
    portfolio.transact_asset = wrapped
    return orig


def funded_broker(cash, fee=None, dh=None, t=T_OPEN, pid='p', holdings=(), prices=None):
    """Real broker + real exchange, one portfolio holding `cash` and optionally positions bought at `prices`."""
    q = load()
    dh = dh or StubDH()
    if prices:
        for a, p in prices.items():
            dh.set(a, p)
    b = q.SimulatedBroker(t, q.SimulatedExchange(t), dh, initial_funds=cash, fee_model=fee_model(fee))
    b.create_portfolio(pid)
    b.subscribe_funds_to_portfolio(pid, cash)
    if holdings:
        for a, n in holdings:
            b.submit_order(pid, q.Order(t, a, n))
        b.update(t)
    return b, dh


def close_rel(a, b, rel=1e-9, scale=None, floor=0.0):
    """|a-b| <= rel * max(scale or |b|, floor)"""
    s = max(abs(b) if scale is None else scale, floor)
    return abs(a - b) <= rel * s


def isnan(x):
    try:
        return math.isnan(x)
    except TypeError:
        return False


def whole(x):
    """True when x is a whole number held in an int-like or float type."""
    import numpy as np
    if isinstance(x, bool):
        return False
    if isinstance(x, (int, np.integer)):
        return True
    if isinstance(x, (float, np.floating)):
        return float(x).is_integer()
    return False
