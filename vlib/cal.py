"""Independent calendar, written from datetime.date arithmetic only (no pandas offsets)."""
import calendar
import datetime as D

import pandas as pd

WEEKDAYS = ('MON', 'TUE', 'WED', 'THU', 'FRI')


def ts(d, h=0, m=0, s=0):
    return pd.Timestamp(D.datetime(d.year, d.month, d.day, h, m, s), tz='UTC')


def ts6(v):
    """[y, m, d, h, mi, s] -> UTC Timestamp"""
    return pd.Timestamp(D.datetime(*v), tz='UTC')


def date3(v):
    return D.date(v[0], v[1], v[2])


def days(d0, d1):
    n = (d1 - d0).days
    return [d0 + D.timedelta(days=i) for i in range(n + 1)]


def bdays(d0, d1):
    return [d for d in days(d0, d1) if d.weekday() < 5]


def is_open(t):
    """Exchange hours: Monday-Friday, 14:30:00 <= t < 21:00:00 (from integer fields)."""
    if t.weekday() >= 5:
        return False
    sec = t.hour * 3600 + t.minute * 60 + t.second
    return 14 * 3600 + 30 * 60 <= sec < 21 * 3600


def last_bday_of_month(y, m):
    d = D.date(y, m, calendar.monthrange(y, m)[1])
    while d.weekday() > 4:
        d -= D.timedelta(days=1)
    return d


def next_bday(d):
    d += D.timedelta(days=1)
    while d.weekday() > 4:
        d += D.timedelta(days=1)
    return d


def schedule_dates(kind, d0, d1, wd=None):
    """Dates (not instants) of the weekly / daily / end_of_month schedule inside [d0, d1]."""
    if kind == 'daily':
        return bdays(d0, d1)
    if kind == 'weekly':
        return [d for d in days(d0, d1) if d.weekday() == wd]
    if kind == 'end_of_month':
        return [d for d in bdays(d0, d1) if d == last_bday_of_month(d.year, d.month)]
    raise ValueError(kind)


def clock_events(d0, d1, pre, post):
    out = []
    for d in bdays(d0, d1):
        if pre:
            out.append((ts(d, 0, 0), 'pre_market'))
        out.append((ts(d, 14, 30), 'market_open'))
        out.append((ts(d, 21, 0), 'market_close'))
        if post:
            out.append((ts(d, 23, 59), 'post_market'))
    return out
