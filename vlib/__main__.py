import sys
from vlib.runner import main
sys.exit(main())
