"""C06 - market data is point-in-time: a price query never sees a later bar."""
import datetime as D
import math
import random

import pandas as pd

from hypothesis import strategies as st

from vlib import cal, gen, kit, market
from vlib.runner import Part, Result, Violation
from vlib.sut import clear_caches, load

PROPERTY = 'C06'
RULE = ('Generated Yahoo-format CSV files (1-2 symbols with different first dates, 1-40 days of rows, gaps incl. '
        'multi-day gaps, missing cells: Open empty / Close+Adj Close empty / Adj Close empty, weekend-dated rows, '
        'shuffled row order) x both adjust_prices settings x ~25 query instants per file (bar date +- {00:00, '
        '14:29:59, 14:30:00, 14:30:01, 20:59:59, 21:00:00, 21:00:01, 23:59}, days before the first bar, after the '
        'last, weekends, random). Oracle 1: pure-Python point-in-time lookup over the raw rows (observations '
        'date+14:30 open\', date+21:00 close\', forward-filled in time order; last observation at or before t; NaN if '
        'none), compared NaN-aware at 1e-12 with get_bid, get_ask and the handler\'s bid/ask/pair/mid (also a handler '
        'over two single-symbol sources); unknown symbol '
        '-> NaN through the handler. Oracle 2 (metamorphic): the answer at t is bit-identical when every row whose '
        'open lies after t is rewritten or deleted and when the row order is permuted. Non-trivial = some row lies '
        'after t, or t precedes the first bar, or the answer needed a forward fill; distinct = distinct case JSON.'
        ' Round-5 reach: a source quoting a spread (ask = 1.25 x bid) behind the handler (handler ask == source ask, handler bid == source bid); a fresh source asked about several symbols at instants that jump back and forth in time (second-level offsets so that memoised answers are not reused).'
        " Round-10 reach: the first source of a case answers fresh instants again after every other source of the case and a differently priced decoy directory for the same symbols were built; a sixth of the files carry whole-number cells (no decimal point), some of ten digits."
        " Round-11 reach: a fresh source whose first requests are closing-price range queries (with and without `adjusted`) is priced through a handler afterwards, at instants +-0.4 s, +-0.6 s and +-1 us around the generated ones."
        " Round-12 reach: bars that settle at exactly zero after a positive open (0/0 adjustment: the open is a missing value)."
        " Round-13 reach: files with extra vendor columns (Adj Open, Dividends, Stock Splits); queries inside the repeated hour of the autumn 2020 clock change written in New York / London time.")
ASSUMPTIONS = [
    'well-formed CSV files with a Date column and unique dates (duplicate dates and header-only files are rejected by '
    'the loader and are not in the domain)',
    'Close is never empty while Adj Close is present (the statement does not define that scaling)',
    'UTC-aware query instants, 1995-2039',
]
TODS = [(0, 0, 0), (14, 29, 59), (14, 30, 0), (14, 30, 1), (20, 59, 59), (21, 0, 0), (21, 0, 1), (23, 59, 0)]


def observations(rows, adjust):
    obs = []
    for y, m, d, o, c, a in sorted(rows, key=lambda r: (r[0], r[1], r[2])):
        dt = D.date(y, m, d)
        if adjust:
            # (a close of exactly zero carries no adjustment ratio: 0/0 is undefined, so that open is a missing value)
            op = None if (o is None or c is None or a is None or c == 0) else (a / c) * o
            cl = a
        else:
            op, cl = o, c
        obs.append((cal.ts(dt, 14, 30), op))
        obs.append((cal.ts(dt, 21, 0), cl))
    return obs


def lookup(obs, t):
    """Last observation at or before t after forward filling in time order; NaN if none."""
    last = None
    ans = None
    seen = False
    filled = False
    for tt, v in obs:
        if tt > t:
            break
        if v is not None:
            last = v
            filled = False
        else:
            filled = True
        seen = True
        ans = last
    if not seen or ans is None:
        return float('nan'), seen, filled
    return ans, seen, filled


def same(a, b, rel=1e-12):
    if math.isnan(a) or math.isnan(b):
        return math.isnan(a) and math.isnan(b)
    return abs(a - b) <= rel * abs(b)


def identical(a, b):
    return (math.isnan(a) and math.isnan(b)) or a == b


def _future_variant(rows, t, mode, seed):
    """Rewrite / delete every row whose 14:30 open lies after t."""
    rnd = random.Random(seed)
    keep, fut = [], []
    for r in rows:
        (fut if cal.ts(D.date(r[0], r[1], r[2]), 14, 30) > t else keep).append(r)
    if not fut:
        return None
    new = []
    for r in fut:
        if mode == 'delete' or (mode == 'mix' and rnd.random() < 0.5):
            continue
        f = rnd.uniform(0.2, 5.0)
        new.append(r[:3] + [None if x is None else round(x * f, 4) for x in r[3:]])
    out = keep + new
    if not out:                                  # a header-only file is not loadable: rewrite instead
        out = [r[:3] + [None if x is None else round(x * 3.7, 4) for x in r[3:]] for r in fut]
    rnd.shuffle(out)
    return out


def run_case(case):
    q = load()
    clear_caches()
    syms = case['symbols']
    queries = [cal.ts6(v) for v in case['queries']]
    cls = set()
    nt = 0
    nq = 0
    with market.csv_dir(syms, extra=bool(case.get('extra_cols'))) as path:
        first_ds = None
        for adjust in (True, False):
            if case.get('all_files'):
                ds = q.CSVDailyBarDataSource(path, q.Equity, adjust_prices=adjust)          # every CSV of the directory
            else:
                ds = q.CSVDailyBarDataSource(path, q.Equity, adjust_prices=adjust, csv_symbols=list(syms))
            dh = q.BacktestDataHandler(None, data_sources=[ds])
            if first_ds is None:
                first_ds = ds
            if case.get('naive_first'):
                # the handler first receives a malformed request (a timestamp without a time zone); whatever it
                # answers or raises, the valid requests that follow are answered as usual
                for name in syms:
                    try:
                        dh.get_asset_latest_bid_price(pd.Timestamp(queries[0].year, queries[0].month, queries[0].day, 15, 0), 'EQ:' + name)
                    except Exception:                             # noqa
                        pass
                cls.add('naive_timestamp_request_first')
            for name, rows in syms.items():
                a = 'EQ:' + name
                obs = observations(rows, adjust)
                first = min(o[0] for o in obs)
                lastobs = max(o[0] for o in obs)
                for qi, t in enumerate(queries):
                    exp, seen, filled = lookup(obs, t)
                    if case.get('zones') and case['zones'][qi % len(case['zones'])]:
                        t = t.tz_convert(case['zones'][qi % len(case['zones'])])     # the same instant, another time zone
                        cls.add('query_in_other_time_zone')
                    got = {
                        'get_bid': ds.get_bid(t, a), 'get_ask': ds.get_ask(t, a),
                        'handler bid': dh.get_asset_latest_bid_price(t, a),
                        'handler ask': dh.get_asset_latest_ask_price(t, a),
                        'handler mid': dh.get_asset_latest_mid_price(t, a),
                    }
                    pair = dh.get_asset_latest_bid_ask_price(t, a)
                    got['handler pair bid'], got['handler pair ask'] = pair[0], pair[1]
                    nq += 1
                    for k, g in got.items():
                        if not same(float(g), exp):
                            raise Violation('%s(%s, %s) adjust=%s returned %r; point-in-time answer is %r '
                                            '(first bar opens %s, last observation %s, %d rows)' % (
                                                k, t, a, adjust, g, exp, first, lastobs, len(rows)))
                    if t < first:
                        cls.add('before_first_bar')
                    if t > lastobs:
                        cls.add('after_last_bar')
                    if filled:
                        cls.add('forward_filled')
                    if (t.hour, t.minute, t.second) in ((14, 30, 0), (21, 0, 0)):
                        cls.add('exact_boundary')
                    if t < first or t < lastobs or filled:
                        nt += 1
            if len(syms) == 2:
                # two single-symbol sources behind one handler: each symbol is answered by the source that has it
                names = list(syms)
                split = [q.CSVDailyBarDataSource(path, q.Equity, adjust_prices=adjust, csv_symbols=[n]) for n in names]
                dh2 = q.BacktestDataHandler(None, data_sources=split)
                for name in names:
                    obs = observations(syms[name], adjust)
                    for t in queries[:8]:
                        exp = lookup(obs, t)[0]
                        for k, g in (('bid', dh2.get_asset_latest_bid_price(t, 'EQ:' + name)),
                                     ('ask', dh2.get_asset_latest_ask_price(t, 'EQ:' + name)),
                                     ('mid', dh2.get_asset_latest_mid_price(t, 'EQ:' + name))):
                            if not same(float(g), exp):
                                raise Violation('handler over two sources: %s(%s, EQ:%s) adjust=%s returned %r; '
                                                'point-in-time answer is %r' % (k, t, name, adjust, g, exp))
                cls.add('two_sources_handler')
            # a handler that carries a universe answers the same: prices do not depend on universe membership
            for uni in (q.StaticUniverse([]), q.DynamicUniverse({'EQ:' + n: queries[-1] + pd.Timedelta(days=400) for n in syms})):
                dhu = q.BacktestDataHandler(uni, data_sources=[ds])
                for name, rows in syms.items():
                    obs = observations(rows, adjust)
                    for t in queries[:6]:
                        exp = lookup(obs, t)[0]
                        for k, g in (('bid', dhu.get_asset_latest_bid_price(t, 'EQ:' + name)),
                                     ('mid', dhu.get_asset_latest_mid_price(t, 'EQ:' + name))):
                            if not same(float(g), exp):
                                raise Violation('handler with a %s: %s(%s, EQ:%s) returned %r; point-in-time answer is %r' % (
                                    type(uni).__name__, k, t, name, g, exp))
            # a source quoting a spread behind the handler: the handler's ask is that source's ask, its bid the bid
            dhs = q.BacktestDataHandler(None, data_sources=[kit.SpreadSource(ds, 0.25)])
            for name, rows in syms.items():
                obs = observations(rows, adjust)
                for t in queries[:6]:
                    exp = lookup(obs, t)[0]
                    gb, ga = dhs.get_asset_latest_bid_price(t, 'EQ:' + name), dhs.get_asset_latest_ask_price(t, 'EQ:' + name)
                    if not (same(float(gb), exp) and same(float(ga), exp * 1.25)):
                        raise Violation('handler over a source quoting bid %r / ask %r at %s for EQ:%s returned bid %r / ask %r' % (
                            exp, exp * 1.25, t, name, gb, ga))
            # the same long-lived source asked about several symbols at instants that jump back and forth in time
            if case.get('interleave'):
                ds3 = q.CSVDailyBarDataSource(path, q.Equity, adjust_prices=adjust, csv_symbols=list(syms))
                names_ = list(syms)
                for si, qi, dsec in case['interleave']:
                    name = names_[si % len(names_)]
                    t = queries[qi % len(queries)] + pd.Timedelta(seconds=dsec)
                    exp = lookup(observations(syms[name], adjust), t)[0]
                    for k, g in (('get_bid', ds3.get_bid(t, 'EQ:' + name)), ('get_ask', ds3.get_ask(t, 'EQ:' + name))):
                        if not same(float(g), exp):
                            raise Violation('%s(%s, EQ:%s) adjust=%s on a source that was asked about other symbols and '
                                            'instants before returned %r; point-in-time answer is %r' % (k, t, name, adjust, g, exp))
                    nq += 1
                cls.add('interleaved_symbols_and_instants')
            # a fresh source whose first requests are range queries for closing prices (through the handler, with and
            # without the `adjusted` flag - whatever they return or raise, they are read-only), priced only afterwards; the
            # handler is asked at instants a fraction of a second either side of the prints as well
            ds4 = q.CSVDailyBarDataSource(path, q.Equity, adjust_prices=adjust, csv_symbols=list(syms))
            dh4 = q.BacktestDataHandler(None, data_sources=[ds4])
            lo_, hi_ = min(queries) - pd.Timedelta(days=3), max(queries) + pd.Timedelta(days=3)
            for f_ in (lambda: dh4.get_assets_historical_range_close_price(lo_, hi_, ['EQ:' + n for n in syms], adjusted=True),
                       lambda: dh4.get_assets_historical_range_close_price(lo_, hi_, ['EQ:' + n for n in syms]),
                       lambda: ds4.get_assets_historical_closes(lo_, hi_, ['EQ:' + n for n in syms])):
                try:
                    f_()
                except Exception:                                 # noqa
                    pass
            for name, rows in syms.items():
                obs = observations(rows, adjust)
                for k_, t in enumerate(queries[:8]):
                    t = t + pd.Timedelta(microseconds=[-400000, 600000, -1, 1, 0, 250000, -600000, 400000][k_])
                    exp = lookup(obs, t)[0]
                    for k, g in (('bid', dh4.get_asset_latest_bid_price(t, 'EQ:' + name)),
                                 ('ask', dh4.get_asset_latest_ask_price(t, 'EQ:' + name)),
                                 ('mid', dh4.get_asset_latest_mid_price(t, 'EQ:' + name))):
                        if not same(float(g), exp):
                            raise Violation('handler %s(%s, EQ:%s) adjust=%s on a source first asked for closing-price ranges '
                                            'returned %r; point-in-time answer is %r' % (k, t, name, adjust, g, exp))
            # instants inside the repeated hour of an autumn clock change, written in that zone (unambiguous instants whose
            # wall-clock reading occurs twice that night)
            for utc_, zone_ in ((pd.Timestamp('2020-11-01 05:30:00.4', tz='UTC'), 'America/New_York'),
                                (pd.Timestamp('2020-10-25 00:30:00.4', tz='UTC'), 'Europe/London')):
                for name, rows in syms.items():
                    obs = observations(rows, adjust)
                    if not obs or min(o_[0] for o_ in obs) > utc_:
                        continue
                    exp = lookup(obs, utc_)[0]
                    t_ = utc_.tz_convert(zone_)
                    for k, g in (('bid', dh.get_asset_latest_bid_price(t_, 'EQ:' + name)), ('ask', dh.get_asset_latest_ask_price(t_, 'EQ:' + name)),
                                 ('mid', dh.get_asset_latest_mid_price(t_, 'EQ:' + name)), ('get_bid', ds.get_bid(t_, 'EQ:' + name))):
                        if not same(float(g), exp):
                            raise Violation('%s(%s, EQ:%s) adjust=%s returned %r; point-in-time answer is %r (the instant lies in the '
                                            'repeated hour of that zone\'s clock change)' % (k, t_, name, adjust, g, exp))
                    cls.add('query_in_the_repeated_hour_of_a_clock_change')
            for t in queries[:3]:
                u = dh.get_asset_latest_bid_price(t, 'EQ:NOPE')
                m_ = dh.get_asset_latest_mid_price(t, 'EQ:NOPE')
                if not (math.isnan(u) and math.isnan(m_)):
                    raise Violation('unknown symbol priced %r / %r through the handler' % (u, m_))
        # the first source again, after every other source of this case (other adjustment, other symbol lists, and
        # another vendor's differently priced files for the same symbols) was built in the same process
        decoy = {n: [r[:3] + [None if x is None else round(x * 3.0, 4) for x in r[3:]] for r in rows] for n, rows in syms.items()}
        with market.csv_dir(decoy) as path3:
            q.CSVDailyBarDataSource(path3, q.Equity, adjust_prices=False, csv_symbols=list(syms))
            for name, rows in syms.items():
                obs = observations(rows, True)
                for t in queries[:8]:
                    t = t + pd.Timedelta(seconds=2)                 # (instants this source has not been asked about yet)
                    exp = lookup(obs, t)[0]
                    for k, g in (('get_bid', first_ds.get_bid(t, 'EQ:' + name)), ('get_ask', first_ds.get_ask(t, 'EQ:' + name))):
                        if not same(float(g), exp):
                            raise Violation('%s(%s, EQ:%s) adjust=True returned %r after other sources were built for the same '
                                            'symbols; point-in-time answer is %r' % (k, t, name, g, exp))
        if case.get('session_built'):
            # the handler a BacktestTradingSession builds for itself (QSTRADER_CSV_DATA_DIR, default adjustment) for a
            # session starting and ending inside the file still answers every instant point-in-time
            import os
            qs = sorted(queries)
            s0, s1 = qs[len(qs) // 3], qs[-1]
            old_env = os.environ.get('QSTRADER_CSV_DATA_DIR')
            os.environ['QSTRADER_CSV_DATA_DIR'] = path
            try:
                # (the session's universe lists one symbol only from its last day on: the handler it builds still answers
                # for every file of the directory, at every instant)
                names_ = ['EQ:' + n for n in syms]
                suni = q.DynamicUniverse({a_: (s0 if k_ else s1) for k_, a_ in enumerate(names_)}) if case.get('session_dynamic') \
                    else q.StaticUniverse(names_)
                bt = q.BacktestTradingSession(s0, s1 + pd.Timedelta(days=1), suni,
                                              q.FixedSignalsAlphaModel({}), rebalance='daily', long_only=True,
                                              cash_buffer_percentage=0.05)
            finally:
                if old_env is None:
                    os.environ.pop('QSTRADER_CSV_DATA_DIR', None)
                else:
                    os.environ['QSTRADER_CSV_DATA_DIR'] = old_env
            for name, rows in syms.items():
                obs = observations(rows, True)
                for t in queries:
                    exp = lookup(obs, t)[0]
                    g = bt.data_handler.get_asset_latest_bid_price(t, 'EQ:' + name)
                    if not same(float(g), exp):
                        raise Violation('session-built handler (session %s..%s): bid(%s, EQ:%s) returned %r; point-in-time '
                                        'answer is %r' % (s0, s1, t, name, g, exp))
            cls.add('session_built_handler')
        # metamorphic: future rows rewritten / deleted, row order permuted
        tc = cal.ts6(case['cut'])
        base = {}
        ds0 = q.CSVDailyBarDataSource(path, q.Equity, adjust_prices=case['cut_adjust'], csv_symbols=list(syms))
        for name in syms:
            base[name] = (ds0.get_bid(tc, 'EQ:' + name), ds0.get_ask(tc, 'EQ:' + name))
    var = {}
    changed = False
    for name, rows in syms.items():
        v = _future_variant(rows, tc, case['cut_mode'], case['cut_seed'])
        if v is None:
            v = list(rows)
            random.Random(case['cut_seed']).shuffle(v)
        else:
            changed = True
        var[name] = v
    clear_caches()
    with market.csv_dir(var) as path2:
        ds1 = q.CSVDailyBarDataSource(path2, q.Equity, adjust_prices=case['cut_adjust'], csv_symbols=list(syms))
        for name in syms:
            got = (ds1.get_bid(tc, 'EQ:' + name), ds1.get_ask(tc, 'EQ:' + name))
            if not (identical(got[0], base[name][0]) and identical(got[1], base[name][1])):
                raise Violation('answer at %s for %s changed from %r to %r when only rows opening after that instant '
                                'were %s (and the row order permuted)' % (
                                    tc, name, base[name], got, case['cut_mode']))
    clear_caches()
    if changed:
        cls.add('future_rewritten_' + case['cut_mode'])
    for k in case.get('flags', []):
        cls.add(k)
    if case.get('all_files'):
        cls.add('all_files_of_directory')
    if case.get('extra_cols'):
        cls.add('files_with_extra_vendor_columns')
    cls.add('symbols_%d' % len(syms))
    return Result(sorted(cls), nontrivial=nt > 0 and changed, info={'queries': nq, 'nontrivial_queries': nt})


@st.composite
def cases(draw):
    names = draw(market.symbol_names(1, 2))
    d0 = draw(st.one_of(st.dates(min_value=D.date(1995, 1, 1), max_value=D.date(2039, 6, 1)),
                        st.dates(min_value=D.date(1995, 1, 1), max_value=D.date(2039, 6, 1)),
                        st.sampled_from([D.date(2020, 10, 12), D.date(2020, 10, 1), D.date(2020, 9, 21)])))      # incl. autumn 2020
    flags = [f for f in ('gappy', 'missing', 'weekend_rows', 'shuffled') if draw(st.booleans())]
    seed = draw(st.integers(0, 2 ** 31))
    syms = {}
    span = 1
    for i, n in enumerate(names):
        off = draw(st.integers(0, 12)) if i else 0
        nd = draw(st.one_of(st.integers(1, 8), st.integers(1, 40)))
        rows = market.build_rows(seed + i, d0 + D.timedelta(days=off), nd, gappy='gappy' in flags,
                                 missing='missing' in flags, weekend_rows='weekend_rows' in flags,
                                 subunit=draw(st.sampled_from([False, False, False, True])))
        if not rows:
            rows = market.build_rows(seed + i, d0 + D.timedelta(days=off + (7 - (d0 + D.timedelta(days=off)).weekday()) % 7), 1)
        whole = draw(st.sampled_from([None] * 5 + [1, 100, 20000000]))
        if whole:
            # a vendor quoting whole numbers only (no decimal point anywhere in the file), possibly in a very small unit
            rows = [r[:3] + [None if x is None else max(1, int(round(x * whole))) for x in r[3:]] for r in rows]
            flags.append('whole_number_cells' if whole < 1000 else 'whole_number_cells_of_ten_digits')
        if 'shuffled' in flags:
            random.Random(seed).shuffle(rows)
        syms[n] = rows
        span = max(span, off + nd)
    if draw(st.sampled_from([False] * 4 + [True])):
        # a contract that settled below zero for a day (Adj Close == Close, so the adjustment factor is 1)
        rows_ = syms[names[0]]
        k_ = draw(st.integers(0, len(rows_) - 1))
        if rows_[k_][4] is not None:
            v_ = -draw(st.sampled_from([37.63, 0.5, 2.0, 0.0, 0.0]))
            if v_ == 0:
                # ... or at exactly zero, after opening at a positive price
                rows_[k_][3:] = [rows_[k_][3], 0.0, 0.0]
                flags.append('zero_settlement')
            else:
                rows_[k_][3:] = [v_ if rows_[k_][3] is not None else None, v_, v_]
                flags.append('negative_settlement')
    if len(names) == 2 and len(syms[names[0]]) >= 4 and draw(st.sampled_from([False, False, True])):
        # the second symbol trades as many days as the first, from the same first to the same last date - but not
        # on the same days in between
        base = sorted(syms[names[0]], key=lambda r: (r[0], r[1], r[2]))
        have = set((r[0], r[1], r[2]) for r in base)
        k = draw(st.integers(1, len(base) - 2))
        lo_, hi_ = D.date(*base[0][:3]), D.date(*base[-1][:3])
        free = [lo_ + D.timedelta(days=i) for i in range(1, (hi_ - lo_).days)
                if ((lo_ + D.timedelta(days=i)).year, (lo_ + D.timedelta(days=i)).month, (lo_ + D.timedelta(days=i)).day) not in have]
        if free:
            nd_ = draw(st.sampled_from(free))
            twin = [list(r) for r in market.build_rows(seed + 99, lo_, (hi_ - lo_).days + 1, weekend_rows=True)]
            px = {(r[0], r[1], r[2]): r[3:] for r in twin}
            rows2 = []
            for i_, r in enumerate(base):
                dkey = (nd_.year, nd_.month, nd_.day) if i_ == k else (r[0], r[1], r[2])
                vals = px.get(dkey) or [round(x * 1.7, 4) if x is not None else None for x in r[3:]]
                rows2.append(list(dkey) + list(vals))
            rows2.sort(key=lambda r: (r[0], r[1], r[2]))
            if 'shuffled' in flags:
                random.Random(seed + 5).shuffle(rows2)
            syms[names[1]] = rows2
            flags.append('same_span_and_count_other_days')
    if len(names) == 2 and syms[names[0]] and syms[names[1]] and \
            market.first_date(syms[names[0]]) != market.first_date(syms[names[1]]):
        flags.append('different_first_dates')
    bar_dates = sorted(set(D.date(r[0], r[1], r[2]) for rows in syms.values() for r in rows))
    qs = []
    nq = draw(st.integers(8, 25))
    for _ in range(nq):
        kind = draw(st.sampled_from(['bar', 'bar', 'bar', 'before', 'after', 'any']))
        if kind == 'bar':
            d = draw(st.sampled_from(bar_dates)) + D.timedelta(days=draw(st.sampled_from([0, 0, 0, -1, 1])))
        elif kind == 'before':
            d = bar_dates[0] - D.timedelta(days=draw(st.integers(0, 5)))
        elif kind == 'after':
            d = bar_dates[-1] + D.timedelta(days=draw(st.integers(0, 5)))
        else:
            d = d0 + D.timedelta(days=draw(st.integers(-3, span + 3)))
        tod = draw(st.one_of(st.sampled_from(TODS), gen.tod_any))
        qs.append([d.year, d.month, d.day] + list(tod))
    cut = draw(st.sampled_from(qs))
    return {'symbols': syms, 'queries': qs, 'cut': cut, 'cut_mode': draw(st.sampled_from(['rewrite', 'delete', 'mix'])),
            'cut_seed': draw(st.integers(0, 1000)), 'cut_adjust': draw(st.booleans()), 'flags': flags,
            'interleave': draw(st.lists(st.tuples(st.integers(0, 1), st.integers(0, 24), st.sampled_from([0, 1, 7, 3600, -0.000001, 0.000001, 0.25, -0.5])).map(list),
                                        min_size=6, max_size=20)) if draw(st.booleans()) else [],
            'naive_first': draw(st.sampled_from([False, False, True])), 'extra_cols': draw(st.sampled_from([False, False, True])), 'session_dynamic': draw(st.booleans()),
            'all_files': draw(st.sampled_from([False, False, True])), 'session_built': draw(st.sampled_from([False, False, True])),
            'zones': draw(st.lists(st.sampled_from([None, None, 'Europe/Berlin', 'America/New_York', 'Asia/Tokyo']), min_size=1, max_size=5))}


PARTS = [
    Part('files', 'hyp', run_case, strategy=cases(), quick=1200, thorough=48000, quick_shards=8),
]
