"""C14 - a session trades only at scheduled rebalances after burn-in; equity is daily."""
import datetime as D
import math
from fractions import Fraction as F

from hypothesis import strategies as st

from vlib import cal, market, refbt, sessgen, session
from vlib.runner import Part, Result, Violation
from vlib.sut import clear_caches

PROPERTY = 'C14'
RULE = ('Generated full sessions on dense markets: start anywhere 1995-2039 with time of day 00:00..14:30 (00:00, 14:30, '
        '09:00, arbitrary), end 23:59, 3-70 days incl. weekend-only ranges; every rebalance kind (buy-and-hold with a '
        '14:30 start); burn-in absent / before the start / exactly on a rebalance instant / one minute after one / '
        'arbitrary / after the end; alpha fixed-weight, universe-driven, or cycling through 2-3 weight vectors (so that weights return to an '
        'earlier vector), behind a recording wrapper; static and '
        'dynamic universes; both sizers; fees. Oracle: recorded alpha calls and allocation-row dates == [r in the '
        'documented schedule of the configured kind (independent calendar) if r is a clock instant and r >= burn-in]; every fill '
        'is at 14:30 on a weekday and not before the first such instant; equity timestamps == 21:00 of every '
        'independent-calendar business day whose close is >= burn-in, each value == initial cash - sum of (price*qty + '
        'commission) of the tapped fills so far + sum net quantity x that day\'s generated close (1e-9); the '
        'target-allocation table has exactly the equity dates and each row carries the weights of the latest call '
        'dated <= that date (NaN before the first). Non-trivial = burn-in strictly inside the range with >= 1 '
        'scheduled instant before it and >= 1 at/after it and >= 1 fill.'
        ' Round-5 reach: a third of the sessions hold a second funded portfolio in the same account (part of the account equity the curve reports); every recorded allocation row must equal the weights the alpha model returned at that rebalance (0 for other assets).'
        " Round-10 reach: a third of the sessions hand curve and allocations to JSONStatistics (benchmark on the later half of the dates) first and the session's equity curve is read again afterwards; spare weekday keywords."
        " Round-11 reach: session portfolio id `master`; weights with many decimals (1/3, 0.5172413); the other mode's sizing keyword passed too."
        " Round-12 reach: violent markets with 5-12x leveraged long/short books (equity below zero at some closes).")
ASSUMPTIONS = [
    'scheduled instants and the business-day grid both come from the independent calendar, so a wrong schedule class '
    'is reported here as well as by C13 (deliberate: a session that derives the wrong schedule does not trade at the '
    'scheduled instants)',
    'dense markets with data from 7 days before the start; fill prices/commissions as tapped (C05/C08 own them)',
    'the allocation table is only checked when at least one rebalance and one equity point exist',
]


def run_case(case):
    clear_caches()
    cfg = case['cfg']
    mk = case['market']
    reserve = case.get('reserve')

    def before_run(r_):
        if reserve:
            add_reserve(r_)
        if case.get('preflight'):
            # a pre-flight look at the session's clock (count the events, find the first and last) before run()
            n_ev = len(list(r_.bt.sim_engine))
            r_.preflight_events = n_ev

    def add_reserve(r_):
        # the session's brokerage account also holds a second, funded portfolio that never trades: it belongs to
        # the account equity the curve reports
        b = r_.bt.broker
        b.subscribe_funds_to_account(reserve)
        b.create_portfolio('reserve', name='Reserve')
        b.subscribe_funds_to_portfolio('reserve', reserve)
    with market.csv_dir(mk) as path:
        r = session.run_session(cfg, path, list(mk), hooks=before_run)
    if r.error:
        raise Violation('session failed with %s: %s at broker time %s' % r.error)
    d0, d1 = cal.date3(cfg['start']), cal.date3(cfg['end'])
    burn = None if cfg.get('burn_in') is None else cal.ts6(cfg['burn_in'])
    extra = bool(cfg.get('extra_clock_events'))
    clock = set(t for t, _ in cal.clock_events(d0, d1, extra, extra))
    # the scheduled instants of the configured rebalance kind, from the independent calendar (the documented
    # schedules: C13 states them; a session that derives a different schedule does not run "at exactly those
    # scheduled instants")
    sched = [cal.ts6(v) for v in sessgen.instants(cfg, cfg['start'], cfg['end'])]
    sched = [x for x in sched if x in clock]
    own = [x for x in r.bt.rebalance_schedule if x in clock]
    exp_calls = [x for x in sched if burn is None or x >= burn]
    if list(r.calls) != exp_calls:
        raise Violation('portfolio construction ran at %s; scheduled %s instants at/after burn-in %s are %s%s' % (
            [str(x) for x in r.calls][:6], cfg['rebalance'], burn, [str(x) for x in exp_calls][:6],
            '' if own == sched else ' (the session derived the schedule %s)' % [str(x) for x in own][:6]))
    adates = [row['Date'] for row in r.allocations]
    if adates != exp_calls:
        raise Violation('allocation rows dated %s, expected %s' % ([str(x) for x in adates][:6], [str(x) for x in exp_calls][:6]))
    # each recorded row carries the weights the alpha model returned at that rebalance (zero for every other asset)
    for row, said in zip(r.allocations, r.alpha.outputs):
        for a in said:
            if a not in row:
                raise Violation('allocation row of %s has no entry for %s, to which the alpha model gave %r at that '
                                'rebalance' % (row['Date'], a, said[a]))
        for a, w in row.items():
            if a == 'Date':
                continue
            want = said.get(a, 0.0)
            if not (w == want):
                raise Violation('allocation row of %s records %s = %r; the alpha model returned %r at that rebalance' % (
                    row['Date'], a, w, said.get(a)))
    for f in r.fills:
        t = f[0]
        if (t.hour, t.minute, t.second) != (14, 30, 0) or t.weekday() > 4:
            raise Violation('fill at %s is not at a market-open event' % t)
        if not exp_calls or t < exp_calls[0]:
            raise Violation('fill at %s precedes the first rebalance at/after burn-in (%s)' % (
                t, exp_calls[0] if exp_calls else None))
    # equity: one point per business day whose close is >= burn-in
    exp_days = [d for d in cal.bdays(d0, d1) if burn is None or cal.ts(d, 21, 0) >= burn]
    got_t = [t for t, _ in r.equity_curve]
    if got_t != [cal.ts(d, 21, 0) for d in exp_days]:
        raise Violation('equity points at %s.. (%d), expected the 21:00 close of %s.. (%d business days, burn-in %s)' % (
            [str(t) for t in got_t][:3], len(got_t), exp_days[:3], len(exp_days), burn))
    prices = {'EQ:' + s: refbt.prices_from_rows(rows, cfg.get('adjust', True)) for s, rows in mk.items()}
    cash = F(cfg['cash'])
    net = {}
    k = 0
    gross = F(cfg['cash'])
    for (t, v), d in zip(r.equity_curve, exp_days):
        while k < len(r.fills) and r.fills[k][0] <= t:
            _, a, n, p, c = r.fills[k]
            cash -= F(float(p)) * int(n) + F(float(c))
            net[a] = net.get(a, 0) + int(n)
            gross = max(gross, abs(F(float(p)) * int(n)))
            k += 1
        e = cash + sum(F(prices[a][d][1]) * n for a, n in net.items()) + (F(reserve) if reserve else 0)
        scale = max(abs(e), gross, 1)
        if abs(v - float(e)) > 1e-9 * float(scale):
            raise Violation('equity on %s is %r; cash - fills + holdings at that close%s is %r' % (
                d, v, ' + the reserve portfolio' if reserve else '', float(e)))
    # allocation table
    cls = list(case.get('labels', []))
    if any(v <= 0 for _, v in r.equity_curve):
        cls.append('equity_not_positive_at_some_close')
    if case.get('analysed_first') and r.allocations and len(r.equity_curve) >= 3:
        # the session's reports are handed to the statistics first - with a benchmark curve on fewer dates, as when a
        # benchmark session starts later - and read from the session again afterwards: they are still the session's
        import tempfile
        import warnings
        from qstrader.statistics.json_statistics import JSONStatistics
        r.bt.target_allocations = r.allocations
        ec = r.bt.get_equity_curve()
        bench = ec.iloc[len(ec) // 2:].copy()
        with warnings.catch_warnings(), tempfile.TemporaryDirectory() as tdir:
            warnings.simplefilter('ignore')
            JSONStatistics(ec, r.bt.get_target_allocations(), benchmark_curve=bench, output_filename=tdir + '/s.json')
        ec2 = r.bt.get_equity_curve()
        if list(ec2.index) != exp_days or list(ec2.columns) != ['Equity'] or \
                [float(x) for x in ec2['Equity']] != [float(v) for _, v in r.equity_curve]:
            raise Violation('after the statistics were computed from it (benchmark on the last %d dates) the session\'s '
                            'equity curve has %d rows %s.. and columns %s; the run recorded %d points' % (
                                len(bench), len(ec2), list(ec2.index)[:2], list(ec2.columns), len(r.equity_curve)))
        cls.append('reports_read_again_after_the_statistics')
    if r.allocations and r.equity_curve:
        r.bt.target_allocations = r.allocations
        tab = r.bt.get_target_allocations()
        if list(tab.index) != exp_days:
            raise Violation('allocation table index %s.. (%d rows), equity dates %s.. (%d)' % (
                list(tab.index)[:3], len(tab.index), exp_days[:3], len(exp_days)))
        cols = [c for c in tab.columns]
        want_cols = set(k for row in r.allocations for k in row if k != 'Date')
        if set(cols) != want_cols:
            raise Violation('allocation table has columns %s; the recorded rebalances cover %s' % (sorted(cols), sorted(want_cols)))
        j = -1
        for d in exp_days:
            while j + 1 < len(exp_calls) and exp_calls[j + 1].date() <= d:
                j += 1
            row = tab.loc[d]
            for c in cols:
                want = float('nan') if j < 0 else r.allocations[j].get(c, float('nan'))
                got = row[c]
                if not ((math.isnan(got) and math.isnan(want)) or got == want):
                    raise Violation('allocation table on %s: %s = %r, latest rebalance (%s) recorded %r' % (
                        d, c, got, exp_calls[j] if j >= 0 else None, want))
        cls.append('allocation_table_checked')
    cls += [cfg['rebalance'], cfg['alpha']['kind'], cfg['universe']['kind']]
    if reserve:
        cls.append('account_with_second_funded_portfolio')
    if case.get('preflight'):
        cls.append('session_clock_listed_before_run')
    before = [x for x in sched if x in clock and burn is not None and x < burn]
    if burn is not None and before:
        cls.append('instants_skipped_by_burn_in')
    if not exp_days:
        cls.append('no_business_day')
    if tuple(cfg['start'][3:]) not in ((0, 0, 0), (14, 30, 0)):
        cls.append('odd_start_time')
    nt = (burn is not None and cal.ts6(cfg['start']) < burn <= cal.ts6(cfg['end']) and before and exp_calls
          and len(r.fills) >= 1)
    return Result(cls, nontrivial=bool(nt), info={'fills': len(r.fills), 'calls': len(exp_calls)})


@st.composite
def cases(draw):
    sched = draw(sessgen.schedule())
    # (a buy-and-hold session whose start is not a clock event never rebalances: its single instant is never reached)
    tods = ((14, 30, 0), (14, 30, 0), (0, 0, 0), (21, 0, 0), (9, 0, 0)) if sched['rebalance'] == 'buy_and_hold' else (
        (0, 0, 0), (14, 30, 0), (9, 0, 0), (14, 29, 59), (3, 17, 5))
    d0, d1, start, end = draw(sessgen.window(min_days=3, max_days=70, start_tods=tods))
    if draw(st.sampled_from([False] * 15 + [True])):           # weekend-only range
        sat = d0 + D.timedelta(days=(5 - d0.weekday()) % 7)
        d0, d1 = sat, sat + D.timedelta(days=1)
        start = [d0.year, d0.month, d0.day] + start[3:]
        end = [d1.year, d1.month, d1.day, 23, 59, 0]
    names = draw(market.symbol_names(1, 4))
    wild = draw(st.sampled_from([False] * 7 + [True]))      # a violent market (daily moves of up to +-25 %) ...
    mk = draw(market.dense_markets(names, d0, (d1 - d0).days, vol=8.0 if wild else 1.0))
    cfg, lab = draw(sessgen.full_config(names, start, end, alpha_kinds=('fixed', 'single', 'single', 'cycle'), sched=sched,
                                        entry_kinds=('before', 'start', 'on', 'after1m', 'mid', 'after_end', 'none')))
    if wild and not cfg['long_only']:
        cfg['leverage'] = draw(st.sampled_from([5.0, 8.0, 12.0]))     # ... on a heavily leveraged book: equity can turn negative
        lab = lab + ['violent_market_heavily_leveraged']
    if cfg['universe']['kind'] == 'dynamic' and cfg['alpha']['kind'] == 'single' and draw(st.booleans()):
        # members also leave again: a user-defined universe (an asset held when it leaves is liquidated and then
        # disappears from the weight vectors)
        inst_ = sessgen.instants(sched, start, end)
        spans = {}
        for a_, lo_ in cfg['universe']['dates'].items():
            hi_ = draw(sessgen.moment(start, end, inst_, ('mid', 'mid', 'on', 'none')))[1]
            spans[a_] = [lo_, hi_]
        cfg['universe'] = {'kind': 'window', 'spans': spans}
        lab = lab + ['members_leave_the_universe']
    if draw(st.sampled_from([False, False, False, True])) and sessgen.add_watched(
            draw, cfg, mk, names, d0, (d1 - d0).days, draw(st.integers(0, 10 ** 6))):
        # the session is given signals that also watch a symbol whose file starts a few days in
        lab = lab + ['signals_watching_a_symbol_without_quotes_at_first']
    if cfg.get('burn_in') is not None and draw(st.sampled_from([False, False, True])):
        cfg['burn_in_tz'] = draw(st.sampled_from(['Europe/London', 'America/New_York', 'Asia/Tokyo']))      # same instant
        lab = lab + ['burn_in_written_in_another_time_zone']
    if draw(st.sampled_from([False, False, False, True])):
        cfg['extra_clock_events'] = True
        lab = lab + ['clock_with_pre_and_post_market_events']
    return {'cfg': cfg, 'market': mk, 'labels': lab,
            'reserve': draw(st.sampled_from([None, None, None, 250000.0, 0.5])),
            'preflight': draw(st.sampled_from([False, False, True])),
            'analysed_first': draw(st.sampled_from([False, False, True]))}


PARTS = [
    Part('sessions', 'hyp', run_case, strategy=cases(), quick=1600, thorough=80000, quick_shards=8),
]
