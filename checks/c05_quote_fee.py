"""C05 - fills use the current quote and charge exactly the fee model's commission."""
import datetime as D
import math
from fractions import Fraction as F

import pandas as pd
from hypothesis import strategies as st

from vlib import cal, gen, kit
from vlib.runner import Inconclusive, Part, Result, Violation
from vlib.sut import load

PROPERTY = 'C05'
RULE = ('Single-update cases on a real broker with a stub data handler whose quote differs at every instant '
        '(submit time, update time, any other time) and per asset: 1-3 orders (incl. a sell and a buy of the same asset '
        'in one update, in one or two portfolios; orders carrying their own commission attribute; one fee-model '
        'object shared by two brokers) (qty +-{1..10} or log-U(1,1e6)), '
        'bid/ask with |ask-bid| >= 0.1% in either order, fee zero/default/percentage with commission and tax '
        'in [0,1], update instants inside exchange hours on any weekday; each case is also run mirrored (sell '
        'for buy at the same price). Oracle: fill time == update time == history event time; price == ask at '
        'the update time for buys, bid for sells (exact); commission == rate*|round(price*qty)| (either '
        'neighbour on an exact half), >= 0, 0 for the zero model; cash delta on a zero-funded portfolio == '
        '-(price*qty + commission); mirrored commission identical. Non-trivial = bid != ask, rate > 0 and '
        'price*qty at least 0.01 away from a whole number and from .5.'
        " Round-4/5 reach: the broker's fee_model attribute replaced before the fills; a third of the cases pre-load positions the orders add to, reduce, close or cross through (cash compared as a delta); a third route the orders through ExecutionHandler + MarketOrderExecutionAlgorithm at the update time."
        " Round-10 reach: update and submission times written in Berlin / Azores time (wall clock inside exchange hours in both zones); accounts in USD, GBP or EUR."
        " Round-11 reach: update times carrying 1 or 789 nanoseconds."
        " Round-12 reach: spreads of 3e-6; `after_refusal` - an update refuses its first order (asset without quote, ValueError caught) and whatever fills then or at the next update is still priced at that update's quote."
        " Round-13 reach: `reentry` - a position opened, held over an update, closed and opened again at four different quotes, the fee model's rates re-assigned before the last fill.")
ASSUMPTIONS = [
    'the stub data handler stands in for any DataHandler (the shipped one returns bid == ask)',
    'update instants at least one minute inside exchange hours (boundaries are C04\'s subject)',
    'float tolerance 1e-9 relative on commission and cash',
]


class TimedDH(object):
    """Quotes keyed by (instant, asset); a distinct fallback quote for any other instant."""

    def __init__(self, table, other):
        self.table, self.other = table, other
        self.calls = []

    def get_asset_latest_bid_ask_price(self, dt, asset):
        self.calls.append((dt, asset))
        return self.table.get((dt, asset), self.other[asset])

    def get_asset_latest_bid_price(self, dt, asset):
        return self.get_asset_latest_bid_ask_price(dt, asset)[0]

    def get_asset_latest_ask_price(self, dt, asset):
        return self.get_asset_latest_bid_ask_price(dt, asset)[1]

    def get_asset_latest_mid_price(self, dt, asset):
        b, a = self.table.get((dt, asset), self.other[asset])
        return (b + a) / 2.0


def _run(case, mirror, fee_obj=None):
    q = load()
    t0 = cal.ts6(case['t_submit'])
    t1 = cal.ts6(case['t_update'])
    if case.get('ns'):
        # clocks with nanosecond resolution: the update time carries a few hundred nanoseconds
        t1 = t1 + pd.Timedelta(nanoseconds=case['ns'])
    if case.get('tz'):
        # the same instants written in another time zone (one in which the wall clock is inside exchange hours too)
        t0, t1 = t0.tz_convert(case['tz']), t1.tz_convert(case['tz'])
    table, other = {}, {}
    orders = []
    for o in case['orders']:
        a, qty, bid, ask = o['asset'], o['qty'], o['bid'], o['ask']
        if mirror:
            qty, bid, ask = -qty, ask, bid          # the same price on the other side
        orders.append((a, qty, bid, ask, o.get('pid', 'p'), o.get('order_commission', 0.0)))
        table[(t1, a)] = (bid, ask)
        table[(t0, a)] = (bid * 1.37, ask * 1.37)
        other[a] = (bid * 0.61, ask * 0.61)
    dh = TimedDH(table, other)
    first_model = fee_obj if fee_obj is not None else kit.fee_model(case['fee'])
    if case.get('swap_fee'):
        first_model = q.ZeroFeeModel() if case['swap_fee'] == 'zero' else q.PercentFeeModel(commission_pct=0.031, tax_pct=0.007)
    if case.get('currency'):
        b = q.SimulatedBroker(t0, q.SimulatedExchange(t0), dh, base_currency=case['currency'], initial_funds=0.0,
                              fee_model=first_model)
    else:
        b = q.SimulatedBroker(t0, q.SimulatedExchange(t0), dh, initial_funds=0.0, fee_model=first_model)
    pids = sorted(set(o[4] for o in orders))
    log = []
    for pid in pids:
        b.create_portfolio(pid)
    # positions the portfolios already hold when the orders arrive (booked at the submit time, no commission): an
    # order may add to, reduce, close or cross through them
    for k, (a, qty, bid, ask, pid, ocomm) in enumerate(orders):
        pr = (case.get('prior') or [])
        if k < len(pr) and pr[k]:
            held = pr[k] if not mirror else -pr[k]
            b.portfolios[pid].transact_asset(q.Transaction(a, held, t0, 10.0, 'prior%d' % k, commission=0.0))
    cash0 = {p: b.portfolios[p].cash for p in pids}
    hist0 = {p: len(b.portfolios[p].history) for p in pids}
    for pid in pids:
        kit.tap(b.portfolios[pid], log, pid)
    by_id = {}
    if case.get('swap_fee') and fee_obj is not None:
        # the fee schedule configured on the broker changes before the fills: fills follow the broker's current model
        b.fee_model = fee_obj
    if case.get('retune') == 3 and isinstance(case['fee'], list) and fee_obj is not None:
        _retune(fee_obj, case)
    built = []
    for a, qty, bid, ask, pid, ocomm in orders:
        od = q.Order(t0, a, qty, commission=ocomm) if ocomm else q.Order(t0, a, qty)
        by_id[od.order_id] = (a, qty, bid, ask, pid)
        built.append((pid, od))
    if case.get('via_exec'):
        # the orders of each portfolio go through the execution handler at the update time, as a rebalance does
        from qstrader.execution.execution_handler import ExecutionHandler
        from qstrader.execution.execution_algo.market_order import MarketOrderExecutionAlgorithm
        for pid in pids:
            eh = ExecutionHandler(b, pid, None, submit_orders=True, execution_algo=MarketOrderExecutionAlgorithm(),
                                  data_handler=dh)
            eh(t1, [od for p_, od in built if p_ == pid])
    else:
        for pid, od in built:
            b.submit_order(pid, od)
        if any(b.portfolios[p].cash != cash0[p] for p in pids) or log:
            raise Violation('submitting changed cash or filled at once')
        b.update(t1)
    by_order = {}
    for tpid, txn in log:
        by_order.setdefault(txn.order_id, []).append(txn)
    rate = kit.fee_rate(case['fee'])
    out = []
    spent = {p: F(0) for p in pids}
    gross = {p: F(0) for p in pids}
    for (tpid, txn) in log:
        if txn.order_id not in by_id:
            raise Violation('fill with unknown order id')
        a, qty, bid, ask, pid = by_id[txn.order_id]
        if txn.asset != a:
            raise Violation('fill in %s for an order in %s' % (txn.asset, a))
        if txn.dt != t1:
            raise Violation('fill of %s stamped %s, broker update time %s' % (a, txn.dt, t1))
        if txn.quantity != qty:
            raise Violation('fill quantity %r != order quantity %r' % (txn.quantity, qty))
        want = ask if qty > 0 else bid
        if txn.price != want:
            raise Violation('%s %d of %s priced %r; quote at the update time is bid %r / ask %r (expected %r)' % (
                'buy' if qty > 0 else 'sell', abs(qty), a, txn.price, bid, ask, want))
        x = F(want) * qty
        eps = F(1, 10 ** 12) * max(1, abs(x))    # price*qty is rounded in floating point: a product within
        lo, hi = math.floor(x + F(1, 2) - eps), math.floor(x + F(1, 2) + eps)   # eps of .5 may go either way
        comm = txn.commission
        if comm < 0:
            raise Violation('negative commission %r' % comm)
        if case['fee'] is None and comm != 0:
            raise Violation('zero-fee model charged %r' % comm)
        exp = [float(rate * abs(k)) for k in (lo, hi)]
        if not any(abs(comm - e) <= 1e-9 * max(1.0, e) for e in exp):
            raise Violation('commission %r != (commission+tax rate %r) x |round(%r x %d)| = %r' % (
                comm, float(rate), want, qty, exp[0]))
        spent[tpid] += x + F(float(comm))
        gross[tpid] += abs(x)
        out.append((a, abs(qty), comm, x, (qty > 0) != mirror))
    if len(log) != len(orders):
        raise Inconclusive('expected %d fills, saw %d' % (len(orders), len(log)))
    hist = [e for p in pids for e in b.portfolios[p].history[hist0[p]:] if e.type == 'asset_transaction']
    if len(hist) != len(log) or any(e.dt != t1 for e in hist):
        raise Violation('history events %s do not match %d fills at %s' % ([(e.dt, e.type) for e in hist], len(log), t1))
    for p in pids:
        cash = b.portfolios[p].cash - cash0[p]
        if abs(cash - float(-spent[p])) > 1e-9 * max(1.0, float(gross[p]), abs(cash0[p])):
            raise Violation('cash of %s after the fills %r != -(price*qty + commission) = %r' % (p, cash, float(-spent[p])))
    if case.get('second_round') and not case.get('via_exec'):
        # the same Order objects (so the same order ids) are submitted once more and filled by a later update at the
        # same quotes: every fill is charged like the first one
        t2 = t1 + pd.Timedelta(minutes=1)
        for (a, qty, bid, ask, pid, ocomm) in orders:
            table[(t2, a)] = (bid, ask)
        n0 = len(log)
        first = {}
        for tpid, txn in log:
            first[txn.order_id] = txn
        for pid, od in built:
            b.submit_order(pid, od)
        b.update(t2)
        for tpid, txn in log[n0:]:
            f0 = first.get(txn.order_id)
            if f0 is None or txn.price != f0.price or txn.quantity != f0.quantity:
                raise Violation('a re-submitted order filled as (%r, %r); the first time as (%r, %r)' % (
                    txn.quantity, txn.price, getattr(f0, 'quantity', None), getattr(f0, 'price', None)))
            if abs(txn.commission - f0.commission) > 1e-9 * max(1.0, abs(f0.commission)):
                raise Violation('order %s x %r filled again at the same quote is charged %r; the first time %r' % (
                    txn.asset, txn.quantity, txn.commission, f0.commission))
        if len(log) - n0 != len(built):
            raise Inconclusive('expected %d fills in the second round, saw %d' % (len(built), len(log) - n0))
    return out, rate


def _retune(fee_obj, case):
    for name in (('commission_pct', 'tax_pct') if case['retune'] != 2 else ('tax_pct', 'commission_pct')):
        setattr(fee_obj, name, case['fee'][0] if name == 'commission_pct' else case['fee'][1])


def run_after_refusal(case):
    """An update that raises part-way (the first order to execute is in an asset without any quote; the caller catches
    the ValueError and carries on): whatever fills at that or any later update is still stamped with that update's time
    and priced at that time's quote."""
    q = load()
    t0, t1 = cal.ts6(case['t_submit']), cal.ts6(case['t_update'])
    t2 = t1 + pd.Timedelta(minutes=1)
    o = case['orders'][0]
    a, qty, bid, ask = o['asset'], o['qty'], o['bid'], o['ask']
    nan = float('nan')
    table = {(t1, a): (bid, ask), (t2, a): (bid * 1.07, ask * 1.07), (t1, 'EQ:NOQ'): (nan, nan), (t2, 'EQ:NOQ'): (nan, nan)}
    dh = TimedDH(table, {a: (bid * 0.61, ask * 0.61), 'EQ:NOQ': (nan, nan)})
    b = q.SimulatedBroker(t0, q.SimulatedExchange(t0), dh, initial_funds=0.0, fee_model=kit.fee_model(case['fee']))
    b.create_portfolio('p')
    log = []
    kit.tap(b.portfolios['p'], log, 'p')
    b.submit_order('p', q.Order(t0, 'EQ:NOQ', -5))
    b.submit_order('p', q.Order(t0, a, qty))
    for t in (t1, t2):
        try:
            b.update(t)
        except ValueError:
            pass
    for _, txn in log:
        quote = table.get((txn.dt, txn.asset))
        if txn.dt not in (t1, t2) or quote is None:
            raise Violation('after a refused order, a fill of %s is stamped %s; the updates were at %s and %s' % (txn.asset, txn.dt, t1, t2))
        want = quote[1] if txn.quantity > 0 else quote[0]
        if txn.price != want:
            raise Violation('after an update that refused an unquoted order, %s x %r filled at %s is priced %r; the quote at '
                            'that time is bid %r / ask %r' % (txn.asset, txn.quantity, txn.dt, txn.price, quote[0], quote[1]))
    return len(log)


def run_reentry(case):
    """A position opened, held over an update, closed out and opened again later - with a fee schedule revised in
    between (the model's public rates re-assigned): every fill is priced at the quote of its own update time and
    charged the rates in force at that time."""
    q = load()
    t0 = cal.ts6(case['t_submit'])
    o = case['orders'][0]
    a, qty, bid, ask = o['asset'], o['qty'], o['bid'], o['ask']
    ts = [cal.ts6(case['t_update']) + pd.Timedelta(minutes=k) for k in range(4)]
    factor = [1.0, 1.09, 0.93, 1.21]
    table = {(t_, a): (bid * f_, ask * f_) for t_, f_ in zip(ts, factor)}
    dh = TimedDH(table, {a: (bid * 0.61, ask * 0.61)})
    fee = case['fee'] if isinstance(case['fee'], list) else None
    model = q.PercentFeeModel(commission_pct=fee[0], tax_pct=fee[1]) if fee else kit.fee_model(case['fee'])
    b = q.SimulatedBroker(t0, q.SimulatedExchange(t0), dh, initial_funds=0.0, fee_model=model)
    b.create_portfolio('p')
    log = []
    kit.tap(b.portfolios['p'], log, 'p')
    rate = kit.fee_rate(case['fee'])
    plan = [(ts[0], qty), (ts[1], None), (ts[2], -qty), (ts[3], qty)]         # open, hold, close, open again
    for k, (t_, n_) in enumerate(plan):
        if k == 3 and fee:
            # the fee schedule is revised before the position is opened again
            model.commission_pct, model.tax_pct = fee[0] * 0.5 + 0.001, fee[1] * 0.25 + 0.002
            rate = F(model.commission_pct) + F(model.tax_pct)
        if n_ is not None:
            b.submit_order('p', q.Order(b.current_dt, a, n_))
        n0 = len(log)
        b.update(t_)
        if len(log) - n0 != (0 if n_ is None else 1):
            raise Inconclusive('expected %d fill(s) at %s' % (0 if n_ is None else 1, t_))
        for _, txn in log[n0:]:
            bq, aq = table[(t_, a)]
            want = aq if txn.quantity > 0 else bq
            if txn.dt != t_ or txn.price != want:
                raise Violation('fill %d of a position opened, held, closed and opened again: %s x %r stamped %s priced %r; the '
                                'quote at the update time %s is bid %r / ask %r' % (k, a, txn.quantity, txn.dt, txn.price, t_, bq, aq))
            x = F(want) * txn.quantity
            eps = F(1, 10 ** 12) * max(1, abs(x))
            exp = [float(rate * abs(math.floor(x + F(1, 2) + e_))) for e_ in (-eps, eps)]
            if not any(abs(txn.commission - e_) <= 1e-9 * max(1.0, e_) for e_ in exp):
                raise Violation('fill %d of a position opened, held, closed and opened again is charged %r; the rates in force '
                                '(%r) x |round(%r x %r)| give %r' % (k, txn.commission, float(rate), want, txn.quantity, exp[0]))


def run_case(case):
    if case.get('after_refusal'):
        run_after_refusal(case)
    if case.get('reentry'):
        run_reentry(case)
    fee_obj = kit.fee_model(case['fee'])          # one fee-model object serves both brokers
    if case.get('retune') and isinstance(case['fee'], list):
        # a live fee model re-tuned through its public rate attributes (commission first, or tax first); with
        # retune 3 the caller re-tunes its own object only after the brokers were built with it
        fee_obj = load().PercentFeeModel(commission_pct=0.0321, tax_pct=0.0123)
        if case['retune'] != 3:
            _retune(fee_obj, case)
    load().PercentFeeModel(commission_pct=0.0123, tax_pct=0.0456)     # an unrelated model built later must not matter
    a1, rate = _run(case, False, fee_obj)
    a2, _ = _run(case, True, fee_obj)
    c1 = {(a, n, side): c for a, n, c, x, side in a1}
    c2 = {(a, n, side): c for a, n, c, x, side in a2}
    for k in c1:
        if abs(c1[k] - c2[k]) > 1e-12 * max(1.0, abs(c1[k])):
            raise Violation('commission differs between a buy and a sell of %s x %d at the same price: %r vs %r' % (
                k[0], k[1], c1[k], c2[k]))
    cls = []
    nt = False
    for o, (a, n, c, x, _side) in zip(sorted(case['orders'], key=lambda o: 0 if o['qty'] < 0 else 1), a1):
        fr = abs(x) - int(abs(x))
        if abs(fr - F(1, 2)) < F(1, 10 ** 12) * max(1, abs(x)):
            cls.append('half_within_float_eps')
        away = min(fr, 1 - fr) >= F(1, 100) and abs(fr - F(1, 2)) >= F(1, 100)
        if o['bid'] != o['ask'] and rate > 0 and away:
            nt = True
        cls.append('buy' if o['qty'] > 0 else 'sell')
        if o['bid'] > o['ask']:
            cls.append('crossed_quote')
        if abs(o['qty']) == 1:
            cls.append('qty_1')
        if abs(x) < 1:
            cls.append('consideration_below_1')
        if fr == F(1, 2):
            cls.append('exact_half')
    cls.append('fee_zero_model' if case['fee'] is None else ('fee_default' if case['fee'] == 'default' else (
        'fee_rate_positive' if rate > 0 else 'fee_rate_zero')))
    cls.append('orders_%d' % len(case['orders']))
    if case.get('after_refusal'):
        cls.append('updates_after_a_refused_unquoted_order')
    if case.get('reentry'):
        cls.append('position_closed_and_opened_again_fee_schedule_revised')
    if case.get('ns'):
        cls.append('update_time_with_nanoseconds')
    if case.get('tz'):
        cls.append('update_time_in_another_zone')
    if case.get('currency'):
        cls.append('account_in_' + case['currency'])
    if case.get('swap_fee'):
        cls.append('fee_model_replaced_after_construction')
    if any(case.get('prior') or []):
        cls.append('orders_meet_existing_positions')
        for o, pr in zip(case['orders'], case['prior']):
            if pr and (pr > 0) != (o['qty'] > 0) and abs(o['qty']) > abs(pr):
                cls.append('order_crosses_through_flat')
    if case.get('via_exec'):
        cls.append('through_execution_handler')
    elif case.get('second_round'):
        cls.append('same_orders_filled_a_second_time')
    if case.get('retune') and isinstance(case['fee'], list):
        cls.append('fee_rates_reassigned_on_live_model')
    if any(o.get('order_commission') for o in case['orders']):
        cls.append('order_with_commission_attribute')
    if len(set(o['asset'] for o in case['orders'])) < len(case['orders']):
        cls.append('same_asset_both_sides')
    if len(set(o.get('pid', 'p') for o in case['orders'])) > 1:
        cls.append('two_portfolios')
    return Result(cls, nontrivial=nt)


@st.composite
def cases(draw):
    day = draw(st.integers(0, 4))
    d = D.date(2021, 3, 1) + D.timedelta(days=day + 7 * draw(st.integers(0, 3)))
    h = draw(st.integers(14, 20))
    mi = draw(st.integers(31 if h == 14 else 0, 58 if h == 20 else 59))
    s = draw(st.integers(0, 59))
    sub_back = draw(st.sampled_from([1, 60, 3600, 86400, 3 * 86400]))
    t1 = pd.Timestamp(D.datetime(d.year, d.month, d.day, h, mi, s), tz='UTC')
    t0 = t1 - pd.Timedelta(seconds=sub_back)
    n = draw(st.sampled_from([1, 1, 2]))
    assets = draw(st.lists(st.sampled_from(kit.ASSET_POOL), min_size=n, max_size=n, unique=True))
    orders = []
    for a in assets:
        qty = draw(st.one_of(st.integers(1, 10), gen.logu(1, 1e6).map(int)))
        if draw(st.booleans()):
            qty = -qty
        p = draw(st.one_of(gen.logu(0.1, 1e4), st.sampled_from([0.5, 1.0, 1.25, 2.5, 10.5])))
        spread = draw(st.one_of(st.floats(0.001, 0.05), st.sampled_from([0.001, 0.01, 0.2])))
        other = float('%.6g' % (p * (1 - spread)))
        if other == p:
            other = p * 0.99
        if draw(st.sampled_from([False] * 7 + [True])):
            other = p * (1 - 3e-6)                         # a very tight market: the sides differ in the sixth digit
        bid, ask = (other, p) if draw(st.booleans()) else (p, other)
        if draw(st.sampled_from([False] * 9 + [True])):
            bid = ask = p                                   # locked quote
        od = {'asset': a, 'qty': qty, 'bid': bid, 'ask': ask}
        if draw(st.sampled_from([False] * 5 + [True])):
            od['order_commission'] = draw(st.sampled_from([12.5, 0.01, -3.0, 1000.0]))
        orders.append(od)
    if draw(st.sampled_from([False, False, True])):
        o = orders[0]
        qty2 = draw(st.integers(1, 10))
        orders.append({'asset': o['asset'], 'qty': -qty2 if o['qty'] > 0 else qty2, 'bid': o['bid'], 'ask': o['ask'],
                       'pid': draw(st.sampled_from(['p', 'p2']))})
    fee = draw(st.one_of(
        st.tuples(st.floats(0, 1), st.floats(0, 1)).map(lambda t: [float('%.4g' % t[0]), float('%.4g' % t[1])]),
        st.tuples(st.floats(0, 0.01), st.floats(0, 0.01)).map(lambda t: [float('%.4g' % t[0]), float('%.4g' % t[1])]),
        st.sampled_from([[0.001, 0.005], [0.002, 0.0], [0.0, 0.005], [1.0, 1.0], [0.0, 0.0]]),
        st.none(), st.just('default'),
    ))
    swap = draw(st.sampled_from([None, None, None, 'zero', 'percent']))
    prior = []
    if draw(st.sampled_from([False, False, True])):
        for o in orders:
            k = draw(st.sampled_from([0, 1, 1, 2, 3]))        # nothing / opposite and smaller / opposite and larger / same side
            m = max(1, abs(o['qty']) // 2)
            prior.append({0: 0, 1: -m if o['qty'] > 0 else m, 2: -(abs(o['qty']) + 3) if o['qty'] > 0 else abs(o['qty']) + 3,
                          3: 5 if o['qty'] > 0 else -5}[k])
    zones = [None, None, None]
    if (h, mi) <= (19, 58):
        zones.append('Europe/Berlin')            # UTC+1 on these dates
    if (h, mi) >= (15, 31):
        zones.append('Atlantic/Azores')          # UTC-1 on these dates
    return {'after_refusal': draw(st.sampled_from([False, False, False, True])), 'reentry': draw(st.sampled_from([False, False, False, True])), 'tz': draw(st.sampled_from(zones)), 'ns': draw(st.sampled_from([0, 0, 0, 789, 1])), 'currency': draw(st.sampled_from([None, None, 'USD', 'GBP', 'EUR'])),
            'second_round': draw(st.sampled_from([False, False, True])), 'retune': draw(st.sampled_from([0, 0, 1, 2, 3])), 'prior': prior, 'via_exec': draw(st.sampled_from([False, False, True])), 'swap_fee': swap, 't_submit': [t0.year, t0.month, t0.day, t0.hour, t0.minute, t0.second],
            't_update': [t1.year, t1.month, t1.day, t1.hour, t1.minute, t1.second],
            'orders': orders, 'fee': fee}


PARTS = [
    Part('fills', 'hyp', run_case, strategy=cases(), quick=10000, thorough=480000, quick_shards=8),
]
