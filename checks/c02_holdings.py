"""C02 - holdings equal the net of all fills and are valued at the latest price."""
from fractions import Fraction as F

import pandas as pd
from hypothesis import strategies as st

from vlib import gen, machine
from vlib.runner import Part, Result, Violation
from vlib.sut import load

PROPERTY = 'C02'
RULE = ('(programs) Hypothesis-generated sequences of up to 60 direct Portfolio.transact_asset / '
        'update_market_value_of_asset calls over 1-5 assets with non-decreasing timestamps (incl. repeated '
        'instants), integer quantities biased to close exactly, flip through zero and re-open, prices down to 0.0004, '
        'commissions >= 0; (histories) the M-broker rule-based machine where fills arrive through orders and marks '
        'are the stub mid at every clock update (incl. ExecutionHandler batches: one broker update per order; fills '
        'belong to the submitting portfolio). Oracle after every step: reported quantity == signed sum of '
        'tapped fill quantities; asset listed iff that sum != 0; market value per asset and in total == quantity x '
        'latest price (latest fill or mark, marks only while held, marks precede fills inside one broker update); '
        'total equity == cash + market value. Non-trivial = contains a close-to-zero-then-reopen or a one-fill '
        'flip, and >= 2 fills (programs: also a mark after a fill on a held asset).'
        " Round-10 reach: sub-cent quotes (0.004, 0.001, 0.0004); the machine may create a portfolio called 'master'.")
ASSUMPTIONS = [
    'cash is read from the portfolio (C01 owns the cash oracle)',
    'whole-number quantities, positive prices; up to 60 steps, 5 assets, 4 portfolios',
    'float tolerance 1e-9 of the gross market value',
]
PRICES = st.one_of(gen.prices, gen.prices, gen.prices, st.sampled_from([0.001, 0.004, 0.0004]))      # incl. sub-cent quotes
T0 = pd.Timestamp('2021-03-01 15:00:00', tz='UTC')
NAMES = ['EQ:A', 'EQ:AB', 'EQ:A_1', 'EQ:Brk.b', 'EQ:Z9']


def run_program(case):
    q = load()
    if case.get('starting_cash'):
        port = q.Portfolio(T0, starting_cash=case['cash'], portfolio_id='p', name='direct')
        if port.cash != case['cash'] or (case['cash'] > 0 and len(port.history) != 1):
            raise Violation('portfolio built with starting cash %r holds %r with %d history events' % (
                case['cash'], port.cash, len(port.history)))
    else:
        port = q.Portfolio(T0, portfolio_id='p')
        if case['cash'] > 0:
            port.subscribe_funds(T0, case['cash'])
    net, last, closed = {}, {}, set()
    t = T0
    flags = set()
    nfills = 0
    for i, op in enumerate(case['ops']):
        t = t + pd.Timedelta(minutes=op[1])
        a = NAMES[op[2]]
        if op[0] == 'fill':
            _, _, _, qty, price, comm = op
            old = net.get(a, 0)
            oid = ('o%d' % (i // 3)) if case.get('repeat_order_ids') else 'o%d' % i
            # (the commission is the documented sixth argument: by keyword, or by position)
            port.transact_asset(q.Transaction(a, qty, t, price, oid, commission=comm) if i % 2 else
                                q.Transaction(a, qty, t, price, oid, comm))
            net[a] = old + qty
            if qty != 0:
                last[a] = F(price)
            else:
                flags.add('zero_quantity_fill')          # generated at the asset's current price: no new information
            nfills += 1
            if old != 0 and net[a] == 0:
                closed.add(a)
                flags.add('closed_to_zero')
            if old == 0 and a in closed:
                flags.add('reopened')
            if old != 0 and net[a] != 0 and (old > 0) != (net[a] > 0):
                flags.add('flipped')
            if abs(qty) == 1:
                flags.add('qty_1')
            if op[1] == 0:
                flags.add('same_instant')
        else:
            _, _, _, price = op
            held = a in port.pos_handler.positions
            if held and case.get('undated_marks') and i % 3 == 0:
                # the quote reaches the position object directly, without the optional timestamp
                port.pos_handler.positions[a].update_current_price(price)
                flags.add('mark_without_timestamp')
            else:
                px = price
                if price == int(price) and i % 2:
                    import numpy as np
                    px = int(price) if i % 4 == 1 else np.int64(price)         # a whole-number quote given as a (numpy) integer
                    flags.add('mark_price_not_a_python_float')
                port.update_market_value_of_asset(a, px, t)
            if net.get(a, 0) != 0:
                last[a] = F(price)
                flags.add('mark_on_held')
            else:
                flags.add('mark_on_unheld')
            if held != (net.get(a, 0) != 0):
                raise Violation('step %d: %s %s in the position book, fills net to %d' % (
                    i, a, 'is' if held else 'is not', net.get(a, 0)))
        d = port.portfolio_to_dict()
        want = {x: n for x, n in net.items() if n != 0}
        got = {x: v['quantity'] for x, v in d.items()}
        if got != want:
            raise Violation('step %d %s: holdings %r, fills net to %r' % (i, op, got, want))
        mv, gross = F(0), F(0)
        for x, n in want.items():
            v = n * last[x]
            mv += v
            gross += abs(v)
            if abs(d[x]['market_value'] - float(v)) > 1e-9 * float(abs(v)) + 1e-12:
                raise Violation('step %d %s: market value of %s is %r, %d x latest price %r = %r' % (
                    i, op, x, d[x]['market_value'], n, float(last[x]), float(v)))
        if abs(port.total_market_value - float(mv)) > 1e-9 * float(gross) + 1e-12:
            raise Violation('step %d %s: total market value %r, sum of quantity x latest price %r' % (
                i, op, port.total_market_value, float(mv)))
        if abs(port.total_equity - (port.cash + float(mv))) > 1e-9 * (float(gross) + abs(port.cash)) + 1e-12:
            raise Violation('step %d %s: total equity %r != cash %r + market value %r' % (
                i, op, port.total_equity, port.cash, float(mv)))
    nt = ('reopened' in flags or 'flipped' in flags) and 'mark_on_held' in flags and nfills >= 2
    if case.get('repeat_order_ids'):
        flags.add('fills_sharing_order_ids')
    return Result(sorted(flags) + ['assets_%d' % case['na']], nontrivial=nt, info={'fills': nfills})


@st.composite
def programs(draw):
    na = draw(st.integers(1, 5))
    n = draw(st.one_of(st.integers(1, 10), st.integers(1, 60)))
    net = [0] * na
    ops = []
    lastp = {}
    for i in range(n):
        a = draw(st.integers(0, na - 1))
        dt = draw(st.sampled_from([0, 0, 1, 5, 1440]))
        if draw(st.sampled_from([True, True, False])):
            how = draw(st.sampled_from(['any', 'any', 'close', 'flip', 'reduce']))
            mag = draw(st.one_of(gen.small_qty, st.integers(1, 1000)))
            if how == 'close' and net[a]:
                qty = -net[a]
            elif how == 'flip' and net[a]:
                qty = -net[a] - (mag if net[a] > 0 else -mag)
            elif how == 'reduce' and abs(net[a]) > 1:
                qty = -(abs(net[a]) // 2) * (1 if net[a] > 0 else -1)
            else:
                qty = mag if draw(st.booleans()) else -mag
            net[a] += qty
            comm = draw(st.one_of(st.just(0.0), st.floats(0, 50).map(lambda x: round(x, 4)),
                                  st.sampled_from([0.0, 0.004, -0.75, -12.5])))       # incl. sub-cent fees and rebates
            price = draw(PRICES)
            if draw(st.sampled_from([False] * 11 + [True])):
                # an order sized down to zero shares, at the price the asset was last seen at
                net[a] -= qty
                qty = 0
                price = lastp.get(a, price)
            lastp[a] = price
            ops.append(['fill', dt, a, qty, price, comm])
        else:
            mp = draw(PRICES)
            if net[a] != 0:
                lastp[a] = mp
            ops.append(['mark', dt, a, mp])
    return {'cash': draw(st.sampled_from([0.0, 1e4, 1e6])), 'na': na, 'ops': ops, 'starting_cash': draw(st.booleans()),
            'repeat_order_ids': draw(st.sampled_from([False, False, True])), 'undated_marks': draw(st.booleans())}


def new_harness():
    return machine.Harness('C02')


def run_history(ops):
    return machine.run_ops('C02', ops, new_harness)


def _machine(rec):
    return machine.make_machine('C02', rec, HIST)


HIST = Part('histories', 'machine', run_history, machine=_machine, quick=1500, thorough=25600, quick_shards=8,
            steps=(40, 60))
HIST.new_harness = new_harness
PARTS = [
    Part('programs', 'hyp', run_program, strategy=programs(), quick=4000, thorough=240000, quick_shards=8),
    HIST,
]
