"""C08 - a fixed-weight backtest reproduces the documented trading rules exactly."""
import datetime as D
import random

from hypothesis import strategies as st

from vlib import cal, kit, market, refbt, sessgen, session
from vlib.runner import Part, Result, Violation
from vlib.sut import clear_caches

PROPERTY = 'C08'
RULE = ('Generated full sessions on dense synthetic markets (1-5 symbols, every Monday-Friday bar present from 7 days '
        'before the start, adjusted or raw prices, some sub-unit prices), fixed weights (long-only >= 0 incl. zeros '
        'and all-zero, unnormalised; long/short signed) for a subset or superset of the static universe, every '
        'rebalance kind (weekly on each weekday, daily, end-of-month, buy-and-hold with the documented 14:30 start), '
        'buffers {0,0.05,1}|U(0,0.6), leverage {1,2,0.5}|U(0.2,5), zero/percentage fees, cash 500..1e8, 3-75 day '
        'ranges starting anywhere 1995-2039 (00:00 or 14:30 starts, weekend starts). Oracle: a reference back-tester '
        'written from the documented rules in exact rationals; compared with the session: fills (time, asset, '
        'quantity exact; price and commission 1e-9), final cash, final holdings (exact), daily equity (dates exact, '
        'values 1e-9), recorded target weights. Cases where a sizing quotient lies within 1e-9 of a rounding '
        'boundary are excluded and counted. Non-trivial = >= 2 rebalances, >= 1 sell fill and (fee > 0 or a negative '
        'weight or a held asset that lost its weight... here: an asset with zero/absent weight in the union).'
        " Round-5 reach: a third of the markets have bars (never a symbol's first) with an empty Open cell - that open trades at the previous close in the reference - and half the files are written newest-first or shuffled."
        " Round-11 reach: a third of the sessions have a burn-in instant inside the session (the reference makes no rebalance and records no equity point before it); a quarter pass the other mode's sizing keyword too.")
ASSUMPTIONS = [
    'dense markets only (gaps and late listings are C06/C07\'s subject)',
    'weight sums are 0 or >= 0.05 (the unscaled near-zero branch is covered by C10/C11)',
    'buy-and-hold fills inside its single 14:30 batch are compared as a multiset (the statement fixes no order there)',
    'float tolerance 1e-9 relative',
]


def run_case(case):
    clear_caches()
    cfg = case['cfg']
    mk = case['market']
    if case.get('gaps'):
        # some bars (never a symbol's first) have an empty Open cell: that open trades at the previous close
        mk = {s: [list(r) for r in rows] for s, rows in mk.items()}
        for s, idxs in case['gaps'].items():
            for k in idxs:
                if 0 < k < len(mk[s]):
                    mk[s][k][3] = None
    if case.get('suspended'):
        # one symbol's bars carry no prices at all for a run of more than a week: it keeps trading at the last close
        s_, k0_, n_ = case['suspended']
        if s_ in mk and len(mk[s_]) > k0_ + n_:
            mk = {s: [list(r) for r in rows] for s, rows in mk.items()}
            for k in range(k0_, k0_ + n_):
                mk[s_][k][3:] = [None, None, None]
    files = mk
    if case.get('file_order', 'sorted') != 'sorted':
        files = {}
        for i, (s, rows) in enumerate(mk.items()):
            rr = list(rows)
            if case['file_order'] == 'reversed':
                rr.reverse()
            else:
                random.Random(811 * i + len(rr)).shuffle(rr)
            files[s] = rr
    late_fee = case.get('late_fee')

    def swap_fee(r_):
        # the broker's fee model is replaced after the session was built, before it runs: sizing and fills follow it
        r_.bt.broker.fee_model = kit.fee_model(late_fee or None)
    run_cfg = cfg
    if late_fee is not None:
        run_cfg = dict(cfg, fee=[0.0123, 0.0045])          # what the session is built with
        cfg = dict(cfg, fee=late_fee or None)              # what is in force when it runs
    with market.csv_dir(files) as path:
        r = session.run_session(run_cfg, path, list(mk), hooks=swap_fee if late_fee is not None else None)
    if r.error:
        raise Violation('session failed with %s: %s at broker time %s' % r.error)
    prices = {'EQ:' + s: refbt.prices_from_rows(rows, cfg.get('adjust', True)) for s, rows in mk.items()}
    try:
        ref = refbt.run(prices, cfg, cfg['universe']['assets'])
    except refbt.Ambiguous:
        return Result(['boundary_ambiguous'], excluded='boundary_ambiguous')
    got, exp = r.fills, ref['fills']
    # compare batch by batch (buy-and-hold's immediate batch as a multiset)
    if len(got) != len(exp):
        raise Violation('session made %d fills, the documented rules give %d (first session fills %s; expected %s)' % (
            len(got), len(exp), [(str(g[0]), g[1], g[2]) for g in got[:4]], [(str(e[0]), e[1], e[2]) for e in exp[:4]]))
    for lo, n, how in ref['batches']:
        g, e = got[lo:lo + n], exp[lo:lo + n]
        if how == 'multiset':
            g, e = sorted(g, key=lambda x: x[1]), sorted(e, key=lambda x: x[1])
        for x, y in zip(g, e):
            if x[0] != y[0] or x[1] != y[1] or x[2] != y[2]:
                raise Violation('fill (%s, %s, %r) but the documented rules give (%s, %s, %r)' % (
                    x[0], x[1], x[2], y[0], y[1], y[2]))
            if abs(x[3] - y[3]) > 1e-9 * abs(y[3]):
                raise Violation('fill of %s at %s priced %r, open price is %r' % (x[1], x[0], x[3], y[3]))
            if abs(x[4] - y[4]) > 1e-9 * abs(y[4]) + 1e-12:
                raise Violation('fill of %s at %s charged %r, documented commission %r' % (x[1], x[0], x[4], y[4]))
    scale = max(abs(float(ref['cash'])), cfg['cash'], 1.0)
    if abs(r.cash - float(ref['cash'])) > 1e-9 * scale:
        raise Violation('final cash %r, documented rules give %r' % (r.cash, float(ref['cash'])))
    if r.holdings != ref['holdings']:
        raise Violation('final holdings %r, documented rules give %r' % (r.holdings, ref['holdings']))
    ge, ee = r.equity_curve, ref['equity']
    if [t.date() for t, _ in ge] != [d for d, _ in ee]:
        raise Violation('equity dates %s.. differ from business days %s..' % ([str(t) for t, _ in ge][:3], ee[:3]))
    for (t, v), (d, w) in zip(ge, ee):
        if (t.hour, t.minute) != (21, 0):
            raise Violation('equity point stamped %s, not the 21:00 close' % t)
        # (cash and holdings of a leveraged book are each up to leverage x the account: noise is relative to that)
        if abs(v - w) > 1e-9 * max(abs(w), 1.0, scale * max(1.0, float(cfg.get('leverage') or 1.0))):
            raise Violation('equity on %s is %r, cash + holdings at the close is %r' % (d, v, w))
    ga = [(row['Date'], {k: v for k, v in row.items() if k != 'Date'}) for row in r.allocations]
    if ga != ref['allocations']:
        raise Violation('recorded target weights %s differ from %s' % (ga[:2], ref['allocations'][:2]))
    cls = [cfg['rebalance'], 'long_only' if cfg['long_only'] else 'long_short', 'assets_%d' % len(mk)]
    if any(w_ <= 0 for _, w_ in ee):
        cls.append('equity_not_positive_at_some_close')
    if any(case.get('gaps', {}).values()):
        cls.append('bars_with_empty_open')
    if case.get('suspended'):
        cls.append('symbol_without_prices_for_over_a_week')
    if late_fee is not None:
        cls.append('fee_model_replaced_before_run')
    if cfg.get('burn_in'):
        cls.append('burn_in_inside_the_session')
    if cfg.get('spare_sizing_kw'):
        cls.append('sizing_keyword_of_the_other_mode_passed_too')
    if case.get('file_order', 'sorted') != 'sorted':
        cls.append('files_' + case['file_order'])
    nreb = len(ref['allocations'])
    sells = sum(1 for f in exp if f[2] < 0)
    w = cfg['alpha']['weights']
    union = set(cfg['universe']['assets']) | set(w)
    zero_w = any(w.get(a, 0.0) == 0.0 for a in union)
    if cfg['fee']:
        cls.append('fee')
    if any(v < 0 for v in w.values()):
        cls.append('negative_weight')
    if set(w) - set(cfg['universe']['assets']):
        cls.append('weights_superset')
    if set(cfg['universe']['assets']) - set(w):
        cls.append('weights_subset')
    if all(v == 0 for v in w.values()):
        cls.append('all_zero_weights')
    if not cfg.get('adjust', True):
        cls.append('raw_prices')
    if w and abs(sum(w.values()) - 1.0) < 1e-4 and sum(w.values()) != 1.0:
        cls.append('weights_sum_near_one')
    if any(abs(f[2]) == 1 for f in exp):
        cls.append('fill_qty_1')
    if cal.date3(cfg['start']).weekday() >= 5:
        cls.append('weekend_start')
    if not exp:
        cls.append('no_fills')
    nt = nreb >= 2 and sells >= 1 and (bool(cfg['fee']) or any(v < 0 for v in w.values()) or zero_w)
    return Result(cls, nontrivial=nt, info={'fills': len(exp), 'rebalances': nreb, 'sells': sells})


@st.composite
def cases(draw):
    sched = draw(sessgen.schedule())
    bah = sched['rebalance'] == 'buy_and_hold'
    d0, d1, start, end = draw(sessgen.window(start_tods=((14, 30, 0), (14, 30, 0), (0, 0, 0), (21, 0, 0)) if bah
                                             else ((0, 0, 0), (14, 30, 0))))
    names = draw(market.symbol_names(1, 5))
    wild = draw(st.sampled_from([False] * 5 + [True]))      # a violent market: daily moves of up to +-25 %
    mk = draw(market.dense_markets(names, d0, (d1 - d0).days, subunit=True, vol=8.0 if wild else 1.0))
    assets = ['EQ:' + n for n in names]
    siz = draw(sizing_())
    nuni = draw(st.integers(1, len(assets)))
    uni = assets[:nuni]
    wkeys = [a for a in assets if draw(st.sampled_from([True, True, True, False]))]
    weights = {a: sessgen.weight_value(draw, siz['long_only']) for a in wkeys}
    cfg = {'start': start, 'end': end, 'fee': draw(sessgen.fee_st), 'cash': draw(sessgen.cash_st), 'burn_in': None,
           'universe': {'kind': 'static', 'assets': uni}, 'alpha': {'kind': 'fixed', 'weights': weights},
           'adjust': draw(st.sampled_from([True, True, False]))}
    cfg.update(sched)
    cfg.update(siz)
    if wild and not siz['long_only']:
        cfg['leverage'] = draw(st.sampled_from([5.0, 8.0, 12.0]))      # ... on a heavily leveraged book: equity can turn negative
    if siz['long_only'] and len(assets) >= 2 and draw(st.sampled_from([False] * 5 + [True])):
        # weights summing to almost - not exactly - one, on a large account: they are still normalised
        n_ = len(assets)
        cfg['alpha']['weights'] = {a: float('%.6f' % (1.0 / n_ - draw(st.sampled_from([1e-6, 2e-6])))) for a in assets}
        cfg['cash'] = 5e7
        cfg['universe']['assets'] = list(assets)
    if draw(st.sampled_from([False, False, True])):
        # a burn-in instant inside the session: no rebalance and no equity point before it
        bd_ = d0 + D.timedelta(days=draw(st.integers(0, max(1, (3 * (d1 - d0).days) // 4))))
        cfg['burn_in'] = [bd_.year, bd_.month, bd_.day] + list(draw(st.sampled_from([(0, 0, 0), (14, 30, 0), (21, 0, 0), (21, 0, 1)])))
    if draw(st.sampled_from([False, False, False, True])):
        cfg['spare_sizing_kw'] = True            # the other mode's sizing keyword is passed too (a shared settings dict)
    gaps = {}
    if draw(st.sampled_from([False, False, True])):
        for s in names:
            gaps[s] = draw(st.lists(st.integers(1, max(1, len(mk[s]) - 1)), max_size=4, unique=True))
    susp = None
    if draw(st.sampled_from([False] * 5 + [True])):
        s_ = draw(st.sampled_from(names))
        susp = [s_, draw(st.integers(2, 6)), draw(st.integers(6, 9))]
    return {'cfg': cfg, 'market': mk, 'gaps': gaps, 'suspended': susp,
            'late_fee': draw(st.sampled_from([None, None, None, [0.001, 0.002], []])),
            'file_order': draw(st.sampled_from(['sorted', 'sorted', 'reversed', 'shuffled']))}


def sizing_():
    return sessgen.sizing()


PARTS = [
    Part('sessions', 'hyp', run_case, strategy=cases(), quick=1600, thorough=64000, quick_shards=8),
]
