"""C11 - long/short sizing respects gross leverage and the sign of every weight."""
import itertools
from fractions import Fraction as F

import numpy as np
from hypothesis import strategies as st

from vlib import gen, kit, refbt
from vlib.runner import Part, Result, Violation
from vlib.sut import load
from checks.c10_long_only import build, csv_cases, equity, fees, price, run_csv

PROPERTY = 'C11'
RULE = ('Direct calls of the long/short sizer on a real broker: 1-6 assets, signed weights (mixed, one-sided, '
        'all-zero, near-zero gross, small integers, single), prices log-U(0.01,1e5) plus sub-unit values, equity '
        'log-U(1,1e10) as cash or cash plus marked positions, leverage {1, default}|U(0.01,20), fee zero/default/'
        'percentage; invalid leverage <= 0 and NaN prices must raise ValueError; the same sizer instance serves 1-3 '
        'successive weight vectors; a third of the sizers are built by QuantTradingSystem. Oracle in exact rationals with '
        'alloc=E*L*w/sum|w| and after=alloc-f*|alloc|: q is an int, q==0 or sign(q)==sign(w), |q|*p <= |after| '
        'and (|q|+1)*p > |after|-1, sum|q|*p <= L*E*(1+f) (1e-12 relative slack). Plus an exhaustive small grid. '
        'Non-trivial = both signs present, fee>0 and a short leg whose |after|/p has a fractional part, or a '
        'rejected invalid input.'
        ' Round-4/5 reach: as C10 (fee model replaced, cash withdrawn, gross_leverage re-set on the live sizer, both sizing keywords through QuantTradingSystem, exact clause with exact multiples, csv part with row order / missing cells / spread / late first source).'
        " Round-10 reach: `broker_other_feed` as in C10; the csv part shares C10's sources that raise before their coverage.")
ASSUMPTIONS = [
    'fee rates with commission + tax <= 1',
    'gross weight either <= 1e-9 (left unscaled by the code; only sign and total bound asserted) or >= 5e-5',
    'float slack 1e-12 relative',
    'equity is read from the broker (portfolio accounting is C02\'s subject)',
]
REL = F(1, 10 ** 12)


def run_case(case):
    inv = case.get('invalid')
    weights = dict(case['weights'])
    q, b, dh = build(case)
    if case.get('broker_other_feed'):
        # the broker marks positions and fills orders on a feed of its own, quoting other prices; the sizer (and the
        # trading system that builds it) is given this handler
        bdh, dh = dh, kit.StubDH()
        dh.q = dict(bdh.q)
        for a_, (bid_, ask_) in list(bdh.q.items()):
            bdh.q[a_] = (bid_ * 1.75, ask_ * 1.75)
    if inv == 'nan_price':
        dh.q.pop(case['nan_asset'], None)
    lev = case['leverage']
    if inv == 'leverage':
        try:
            if case.get('via_qts'):
                q.QuantTradingSystem(q.StaticUniverse(sorted(weights)), b, 'p', dh, None, long_only=False,
                                     gross_leverage=lev, submit_orders=False,
                                   **({'cash_buffer_percentage': 0.05} if case.get('both_kwargs') else {}))
            else:
                q.LongShortLeveragedOrderSizer(b, 'p', dh, gross_leverage=lev)
        except ValueError:
            return Result(['rejected_leverage'] + (['rejected_via_trading_system'] if case.get('via_qts') else []), nontrivial=True)
        raise Violation('gross leverage %r was accepted%s' % (lev, ' by QuantTradingSystem' if case.get('via_qts') else ''))
    if lev == 'default':
        sizer = q.LongShortLeveragedOrderSizer(b, 'p', dh)
        lev = 1.0
    elif case.get('via_qts'):
        qts = q.QuantTradingSystem(q.StaticUniverse(sorted(weights)), b, 'p', dh, None, long_only=False,
                                   gross_leverage=lev, submit_orders=False,
                                   **({'cash_buffer_percentage': 0.05} if case.get('both_kwargs') else {}))
        sizer = qts.portfolio_construction_model.order_sizer
        if not isinstance(sizer, q.LongShortLeveragedOrderSizer):
            raise Violation('long/short trading system built a %s' % type(sizer).__name__)
    else:
        sizer = q.LongShortLeveragedOrderSizer(b, 'p', dh, gross_leverage=lev)
    E = F(b.get_portfolio_total_equity('p'))
    if E <= 0:
        return Result(['nonpositive_equity_skipped'], excluded='nonpositive_equity')
    if inv == 'nan_price':
        try:
            out = sizer(kit.T_OPEN, dict(weights))
        except ValueError:
            return Result(['rejected_nan_price'], nontrivial=True)
        raise Violation('NaN price was accepted: weights %r prices %r -> %r' % (weights, dh.q, out))

    all_cls, any_nt = (['broker_on_another_feed'] if case.get('broker_other_feed') else []), False
    fee_now = case['fee']
    vectors = [weights] + [dict(w) for w in case.get('more_weights', [])]
    for call_no, weights in enumerate(vectors):
        if call_no and case.get('move_cash'):
            # the portfolio's equity changes between two calls on the same sizer (same instant)
            c_ = b.get_portfolio_cash_balance('p')
            if c_ > 2:
                b.withdraw_funds_from_portfolio('p', float('%.6g' % (0.4 * c_)))
                all_cls.append('equity_changed_between_calls')
        if call_no and case.get('swap_fee') is not None:
            # the broker's fee schedule changes while the sizer lives on: the sizer must follow the broker's model
            b.fee_model = kit.fee_model(case['swap_fee'] or None)
            fee_now = case['swap_fee'] or None
            all_cls.append('fee_model_replaced')
        if call_no and case.get('new_leverage') is not None:
            # the sizer's public gross_leverage attribute is re-set on the live object: later calls follow it
            sizer.gross_leverage = case['new_leverage']
            lev = case['new_leverage']
            all_cls.append('leverage_changed_on_live_sizer')
        E = F(b.get_portfolio_total_equity('p'))
        out = sizer(kit.T_OPEN, dict(weights))
        if set(out.keys()) != set(weights.keys()):
            raise Violation('target keys %s differ from weight keys %s' % (sorted(out), sorted(weights)))
        f = kit.fee_rate(fee_now)
        L = F(lev)
        gross_float = sum(np.abs(w) for w in weights.values())
        gross = sum(abs(F(w)) for w in weights.values())
        unscaled = bool(np.isclose(gross_float, 0.0))
        cls = []
        total = F(0)
        frac_short = False
        for a, w in weights.items():
            qty = out[a]['quantity']
            if isinstance(qty, bool) or not isinstance(qty, (int, np.integer)):
                raise Violation('quantity for %s is %r (%s), not a whole number' % (a, qty, type(qty).__name__))
            p = F(dh.q[a][1])
            total += abs(qty) * p
            if qty != 0 and (qty > 0) != (w > 0):
                raise Violation('%s: quantity %d does not carry the sign of weight %r' % (a, qty, w))
            if w == 0 and qty != 0:
                raise Violation('%s: zero weight gave quantity %d' % (a, qty))
            if gross == 0 or unscaled:
                continue
            alloc = E * L * F(w) / gross
            after = alloc - f * abs(alloc)
            mag = abs(after)
            slack = REL * (mag + p)
            if abs(qty) * p > mag + slack:
                raise Violation('%s: |quantity| %d at %r costs %r > allocation after fees %r (E=%r L=%r w=%r/%r f=%r)' % (
                    a, abs(qty), float(p), float(abs(qty) * p), float(mag), float(E), lev, w, float(gross), float(f)))
            if (abs(qty) + 1) * p <= mag - 1 - slack:
                raise Violation('%s: |quantity| %d is not the largest affordable within one currency unit: one more '
                                'at %r still fits %r (E=%r L=%r w=%r/%r f=%r)' % (
                                    a, abs(qty), float(p), float(mag), float(E), lev, w, float(gross), float(f)))
            if w < 0 and (mag / p) != int(mag / p):
                frac_short = True
        # exact clause: away from float-ambiguous quotients the quantity is the truncation toward zero of
        # (whole-currency allocation after fees) / price
        if gross != 0 and not unscaled:
            try:
                ref = refbt.size_long_short(E, L, None if f == 0 else list(fee_now), {a: F(w) for a, w in weights.items()},
                                            {a: F(dh.q[a][1]) for a in weights})
            except refbt.Ambiguous:
                ref = None
                cls.append('quotient_within_1e-12_of_a_whole_number')
            if ref is not None:
                for a in weights:
                    if out[a]['quantity'] != ref[a]:
                        raise Violation('%s: quantity %d, truncating toward zero (whole-unit allocation after fees) / price '
                                        'gives %d (E=%r L=%r w=%r/%r f=%r price=%r)' % (
                                            a, out[a]['quantity'], ref[a], float(E), lev, weights[a], float(gross), float(f),
                                            dh.q[a][1]))
                if case.get('exact_multiple'):
                    cls.append('allocation_is_exact_multiple_of_price')
        bound = L * E * (1 + f)
        if gross != 0 and total > bound * (1 + REL):
            raise Violation('gross target %r exceeds L*E*(1+f) = %r' % (float(total), float(bound)))
        if gross == 0 and total != 0:
            raise Violation('all-zero weights gave a non-zero target')
        signs = set((w > 0) - (w < 0) for w in weights.values())
        cls.append('all_zero' if gross == 0 else ('near_zero_gross' if unscaled else 'scaled'))
        cls.append('n_assets_%d' % len(weights))
        if 1 in signs and -1 in signs:
            cls.append('both_signs')
        elif -1 in signs:
            cls.append('short_only')
        if case.get('hold'):
            cls.append('equity_with_positions')
        if case['leverage'] == 'default':
            cls.append('default_leverage')
        if case.get('via_qts') and case['leverage'] != 'default':
            cls.append('built_by_trading_system')
            if case.get('both_kwargs'):
                cls.append('trading_system_given_both_sizing_keywords')
        if f > 0:
            cls.append('fee_positive')
        if any(abs(out[a]['quantity']) == 1 for a in out):
            cls.append('quantity_exactly_1')
        if any(out[a]['quantity'] < 0 for a in out):
            cls.append('short_target')
        if not unscaled and gross != 0 and any(
                abs(E * L * F(w) / gross) < 1 and dh.q[a][1] < 1 for a, w in weights.items() if w != 0):
            cls.append('sub_unit_allocation_sub_unit_price')
        nt = (1 in signs and -1 in signs) and f > 0 and frac_short
        all_cls += cls
        any_nt = any_nt or nt
        if call_no:
            all_cls.append('sizer_reused')
            if set(weights) != set(vectors[call_no - 1]):
                all_cls.append('asset_set_changed_between_calls')
    cls, nt = sorted(set(all_cls)), any_nt
    return Result(cls, nontrivial=nt)


def _sweight(draw):
    mag = draw(st.one_of(
        st.builds(lambda m, k: float('%.6g' % (m * 10.0 ** k)), st.floats(0.05, 1.0), st.integers(-3, 3)),
        st.integers(1, 5).map(float), st.just(0.0)))
    return mag if draw(st.booleans()) else -mag


@st.composite
def cases(draw):
    assets = draw(st.lists(st.sampled_from(kit.ASSET_POOL), min_size=1, max_size=6, unique=True))
    kind = draw(st.sampled_from(['mixed', 'mixed', 'mixed', 'mixed', 'long_only', 'short_only', 'all_zero',
                                 'near_zero', 'ints', 'single']))
    if kind == 'single':
        assets = assets[:1]
    if kind == 'all_zero':
        w = {a: 0.0 for a in assets}
    elif kind == 'near_zero':
        w = {a: draw(st.sampled_from([0.0, 1e-12, -1e-10, 3e-11, -2e-12])) for a in assets}
    elif kind == 'ints':
        w = {a: float(draw(st.integers(-3, 3))) for a in assets}
    else:
        w = {a: _sweight(draw) for a in assets}
        if kind == 'long_only':
            w = {a: abs(x) for a, x in w.items()}
        elif kind == 'short_only':
            w = {a: -abs(x) for a, x in w.items()}
    case = {
        'weights': w,
        'prices': {a: draw(price) for a in assets},
        'equity': draw(equity),
        'leverage': draw(st.one_of(st.sampled_from([1.0, 'default', 2.0, 0.5, 0.01]),
                                   st.floats(0.01, 20).map(lambda x: float('%.4g' % x)))),
        'fee': draw(fees),
    }
    if draw(st.sampled_from([False, False, False, True])):
        a = draw(st.sampled_from(kit.ASSET_POOL))
        case['hold'] = [a, draw(st.sampled_from([0.1, 0.3, 0.5])), draw(st.sampled_from([0.5, 0.9, 1.0, 1.7]))]
        if a not in case['prices']:
            case['hold_price'] = draw(price)
    if kind in ('mixed', 'ints') and draw(st.sampled_from([False, False, True])):
        case['more_weights'] = []
        for _ in range(draw(st.integers(1, 2))):
            sub = assets if draw(st.booleans()) else draw(st.lists(st.sampled_from(assets), min_size=1, unique=True))
            case['more_weights'].append({a: _sweight(draw) for a in sub})
    case['via_qts'] = draw(st.sampled_from([False, False, True]))
    case['broker_other_feed'] = draw(st.sampled_from([False, False, True]))
    case['both_kwargs'] = draw(st.booleans())      # a shared configuration carrying both sizing keywords
    inv = draw(st.sampled_from([None] * 12 + ['leverage', 'nan_price']))
    if inv == 'leverage':
        case['leverage'] = draw(st.sampled_from([0.0, -0.0, -1e-9, -0.5, -1.0, -20.0]))
    elif inv == 'nan_price':
        case['nan_asset'] = draw(st.sampled_from(assets))
        case.pop('hold', None)
    if inv is None and draw(st.sampled_from([False] * 9 + [True])):
        # the whole allocation is an exact multiple of the price: the quotient is a whole number with nothing to truncate
        a = assets[0]
        pz = draw(st.sampled_from([3.0, 7.0, 11.0, 13.0, 49.0, 97.0, 1001.0, 0.5, 0.25]))
        case.update({'weights': {a: draw(st.sampled_from([1.0, -1.0, -0.5, 3.0]))}, 'prices': {a: pz},
                     'equity': pz * draw(st.integers(1, 200000)), 'leverage': 1.0, 'fee': None, 'exact_multiple': True})
        case.pop('hold', None)
        case.pop('more_weights', None)
        case.pop('hold_price', None)
    case['move_cash'] = draw(st.booleans())
    case['swap_fee'] = draw(st.sampled_from([None, None, [0.01, 0.005], [0.0, 0.0]]))
    case['new_leverage'] = draw(st.sampled_from([None, None, None, 0.25, 3.0, 1.0]))
    if inv:
        case['invalid'] = inv
        case.pop('more_weights', None)
    return case


def grid(tier):
    A = ['EQ:A', 'EQ:AB', 'EQ:B']
    for ws in itertools.product([-2.0, -1.0, 0.0, 1.0, 3.0], repeat=3):
        for ps in itertools.product([0.4, 3.0, 7.5], repeat=3):
            for E in (0.9, 99.99, 1000.0):
                for lev in (0.5, 1.0, 3.0):
                    yield {'weights': dict(zip(A, ws)), 'prices': dict(zip(A, ps)), 'equity': E, 'leverage': lev,
                           'fee': [0.001, 0.005] if (ws[0] + ps[1]) % 2 else None}


def run_csv_ls(case):
    return run_csv(case, long_only=False)


PARTS = [
    Part('random', 'hyp', run_case, strategy=cases(), quick=15000, thorough=800000, quick_shards=8),
    Part('grid', 'sweep', run_case, sweep=grid, quick_shards=8, exhaustive=True),
    Part('csv', 'hyp', run_csv_ls, strategy=csv_cases(False), quick=300, thorough=24000, quick_shards=8),
]
