"""C07 - backtest results up to any date do not depend on later market data."""
import contextlib
import datetime as D
import json
import random
import shutil

from hypothesis import strategies as st

from vlib import cal, market, sessgen, session
from vlib.runner import Part, Result, Violation
from vlib.sut import clear_caches, load

PROPERTY = 'C07'
RULE = ('Paired sessions: world A and world B share the configuration and all market rows dated on or before a cut '
        'day T; every row dated after T is rewritten by independent factors, deleted, or a mix (a symbol with no row '
        'left is rewritten instead). Markets: 1-5 symbols, dense / gappy / missing cells / late-starting symbols '
        '(<= 15%); configurations: every rebalance kind, long-only and long/short sizing, fees, burn-in classes, '
        'static and dynamic universes, alpha models fixed-weight, universe-driven, top-N momentum (the shipped example '
        'model), SMA trend and inverse volatility; T anywhere in the session. Oracle: history events, fills, equity '
        'points and recorded target-allocation rows dated <= T 23:59:59 compared by repr (bit for bit); if either '
        'run fails at a broker time <= T both must fail with the same error type at the same time; the public '
        'allocation table rows dated <= T are compared too; in a third of the cases each world first runs another '
        'session and whole-file queries on the very same data-handler object; in half the files are laid out newest '
        'first or shuffled; in a quarter the handler is given a second, differently priced source first whose files '
        'end 0-9 days after T (subject to the same rewriting). A is run twice '
        'first; configurations where A != A\' are skipped and counted (that is C18\'s subject). Non-trivial = B '
        'differs from A after T, A has >= 1 fill at or before T, >= 1 rebalance after T, and T is not the last day.'
        " Round-5 reach: alpha kinds `cycle` (rotating weight vectors) and `hist` (weights from the data source's public range query up to the rebalance instant); rewrite mode `wild` (the whole future trades at x0.01 .. x100)."
        " Round-10 reach: market shapes `opens_only_until_after_the_cut` (a symbol whose bars carry no closing prints until a few days past T, adjustment factor 0.5-1) and `suspended_across_the_cut` (no rows for 0-3 days either side of T) in 3 of 8 cases; a quarter of the non-weekly sessions carry a meaningless weekday keyword."
        " Round-12 reach: `drop_file` - a symbol with no row left in the removed-future world has no file there at all (cuts placed before a late symbol's first bar); suspensions of up to two and a half weeks before the cut."
        " Round-13 reach: files with extra vendor columns (split ratios after the cut differ between the worlds); markets on a quarter-point grid.")
ASSUMPTIONS = [
    'well-formed CSV files; header-only files are not in the domain',
    'sessions of 5-60 days, <= 5 symbols, signal lookbacks <= 9',
    'non-deterministic configurations are skipped here and reported by C18',
]


def make_b(rows, T, mode, seed, drop_file=False):
    rnd = random.Random(seed)
    keep, fut = [], []
    for r in rows:
        (fut if D.date(r[0], r[1], r[2]) > T else keep).append(r)
    if not fut:
        return list(rows), False
    new = []
    level = 10.0 ** rnd.choice([-2, -1.5, 1.5, 2])        # 'wild': the whole future trades at another order of magnitude
    for r in fut:
        if mode == 'delete' or (mode == 'mix' and rnd.random() < 0.5):
            continue
        if mode == 'blank':
            new.append(r[:3] + [None, None, None])          # the dates stay, every later price cell is empty
            continue
        if mode == 'wild':
            new.append(r[:3] + [None if x is None else round(x * level * rnd.uniform(0.97, 1.03), 4) for x in r[3:]])
            continue
        new.append(r[:3] + [None if x is None else round(x * rnd.uniform(0.3, 3.0), 4) for x in r[3:]])
    if mode in ('rewrite', 'wild', 'mix') and new and rnd.random() < 0.4:
        # the vendor's later rows have gaps: a few future cells are empty
        for k in range(len(new)):
            if rnd.random() < 0.25:
                j = rnd.choice([3, 4, 5])
                new[k] = new[k][:j] + [None] + new[k][j + 1:]
                if j == 4:
                    new[k][5] = None
    if mode in ('rewrite', 'wild') and new and rnd.random() < 0.3:
        # a bad print somewhere in the future: a close of zero
        k = rnd.randrange(len(new))
        if new[k][4] is not None:
            new[k] = new[k][:4] + [0.0, 0.0 if new[k][5] is not None else None]
    out = keep + new
    if not out and drop_file:
        return [], True             # nothing of this symbol is left in that world: it has no file there at all
    if not out:
        out = [r[:3] + [None if x is None else round(x * rnd.uniform(0.3, 3.0), 4) for x in r[3:]] for r in fut]
    return out, True


def run_case(case):
    cfg = case['cfg']
    mk_a = case['market']
    T = cal.date3(case['cut'])
    Tend = cal.ts(T, 23, 59, 59)
    mk_b = {}
    changed = False
    for i, (s, rows) in enumerate(mk_a.items()):
        mk_b[s], ch = make_b(rows, T, case['mode'], case['seed'] + i, drop_file=bool(case.get('drop_file')))
        changed = changed or ch
    if not any(mk_b.values()):
        mk_b = {s: make_b(rows, T, case['mode'], case['seed'] + i)[0] for i, (s, rows) in enumerate(mk_a.items())}
    dropped = [s for s, rows in mk_b.items() if not rows]
    mk_b = {s: rows for s, rows in mk_b.items() if rows}
    syms = list(mk_a)
    reuse = case.get('reuse_handler', False)
    order = case.get('file_order', 'sorted')
    two = case.get('second_source')

    def files(mk):
        """The rows as they are laid out in the files (date order, newest first, or shuffled)."""
        if order == 'sorted':
            return mk
        out = {}
        for i, (s, rows) in enumerate(mk.items()):
            rows = list(rows)
            if order == 'reversed':
                rows.reverse()
            else:
                random.Random(case['seed'] + 977 * i).shuffle(rows)
            out[s] = rows
        return out

    def second(mk):
        """A second vendor's files for the same symbols: other prices, and ending `two` days after the cut (the
        rows dated <= T are the same function of the shared rows in both worlds)."""
        if two == 'late':
            # ... or a vendor whose history only begins after the cut (symbols without any row have no file at all)
            out = {}
            for s, rows in mk.items():
                rr = [r[:3] + [None if x is None else round(x * 1.25, 4) for x in r[3:]] for r in rows
                      if D.date(r[0], r[1], r[2]) > T + D.timedelta(days=1)]
                if rr:
                    out[s] = rr
            return out
        stop = T + D.timedelta(days=two)
        out = {}
        for s, rows in mk.items():
            rr = [r[:3] + [None if x is None else round(x * 1.25, 4) for x in r[3:]] for r in rows
                  if D.date(r[0], r[1], r[2]) <= stop]
            out[s] = rr or [r[:3] + [None if x is None else round(x * 1.25, 4) for x in r[3:]] for r in rows]
        return out

    def world(path, have=None):
        have = list(syms) if have is None else have        # the symbols that have a file in this world
        """One world: optionally a prelude session first, on the very same data handler object (as the shipped
        examples do for strategy and benchmark), then the session under test."""
        if not reuse and two is None:
            return session.run_session(cfg, path, have)
        q = load()
        ds = q.CSVDailyBarDataSource(path, q.Equity, adjust_prices=cfg.get('adjust', True), csv_symbols=list(have))
        if two is not None:
            # the handler is given the short second-vendor source first and the full one second
            import os
            have = sorted(f[:-4] for f in os.listdir(path + '_2') if f.endswith('.csv')) if os.path.isdir(path + '_2') else []
            if have:
                ds2 = q.CSVDailyBarDataSource(path + '_2', q.Equity, adjust_prices=cfg.get('adjust', True), csv_symbols=have)
                dh = q.BacktestDataHandler(None, data_sources=[ds2, ds])
            else:
                dh = q.BacktestDataHandler(None, data_sources=[ds])
            if not reuse:
                return session.run_session(cfg, path, have, data_source=ds, data_handler=dh)
        else:
            dh = q.BacktestDataHandler(None, data_sources=[ds])
        pre = json.loads(json.dumps(cfg))
        pre['alpha'] = {'kind': 'fixed', 'weights': {'EQ:' + s: 1.0 for s in syms}}
        pre['universe'] = {'kind': 'static', 'assets': ['EQ:' + s for s in syms]}
        pre['burn_in'] = None
        pre['long_only'], pre['buffer'] = True, 0.05
        session.run_session(pre, path, have, data_source=ds, data_handler=dh)
        # ... and the handler has also answered queries over the whole file, including its last bars
        end = cal.ts6(cfg['end'])
        for a in ['EQ:' + s for s in syms]:
            for back in (0, 1, 5, 30, 400):
                for f in (dh.get_asset_latest_bid_price, dh.get_asset_latest_ask_price, dh.get_asset_latest_mid_price):
                    f(end + D.timedelta(days=30 - back), a)
        return session.run_session(cfg, path, have, data_source=ds, data_handler=dh)
    @contextlib.contextmanager
    def laid_out(mk):
        with market.csv_dir(files(mk), extra=bool(case.get('extra_cols'))) as pth:
            if two is not None:
                market.write_market(files(second(mk)), pth + '_2', extra=bool(case.get('extra_cols')))
            try:
                yield pth
            finally:
                if two is not None:
                    shutil.rmtree(pth + '_2', ignore_errors=True)
    clear_caches()
    with laid_out(mk_a) as pa:
        ra = world(pa)
        clear_caches()
        ra2 = world(pa)
    da, da2 = session.digest(ra, Tend), session.digest(ra2, Tend)
    if da != da2 or (ra.error is None) != (ra2.error is None):
        return Result(['nondeterministic_skipped'], excluded='nondeterministic')
    clear_caches()
    with laid_out(mk_b) as pb:
        rb = world(pb, list(mk_b))
    clear_caches()
    db = session.digest(rb, Tend)
    ea = ra.error if ra.error and ra.error[2] <= Tend else None
    eb = rb.error if rb.error and rb.error[2] <= Tend else None
    if (ea is None) != (eb is None) or (ea and (ea[0], ea[2]) != (eb[0], eb[2])):
        raise Violation('up to %s the runs fail differently: original %s, with the future %s: %s' % (
            T, ea, case['mode'], eb))
    d = session.first_diff(da, db)
    if d:
        raise Violation('results dated <= %s changed when only market data after that day was %s: %s' % (
            T, {'rewrite': 'rewritten', 'delete': 'deleted', 'mix': 'rewritten/deleted',
                'wild': 'rewritten by orders of magnitude', 'blank': 'blanked'}[case['mode']], d))
    cls = list(case.get('labels', []))
    cls += [cfg['rebalance'], cfg['alpha']['kind'], cfg['universe']['kind'], 'future_' + case['mode']]
    fills_before = sum(1 for f in ra.fills if f[0] <= Tend)
    reb_after = sum(1 for c in ra.calls if c > Tend)
    if reuse:
        cls.append('handler_reused_after_another_session')
    if order != 'sorted':
        cls.append('files_' + order)
    if two is not None:
        cls.append('two_sources_first_one_starts_after_cut' if two == 'late' else 'two_sources_first_one_ends_near_cut')
    if dropped:
        cls.append('symbol_without_any_file_once_the_future_is_removed')
    if case.get('extra_cols'):
        cls.append('files_with_extra_vendor_columns')
    if ra.error:
        cls.append('session_error_' + ra.error[0])
    if ea:
        cls.append('error_before_cut')
    if not changed:
        cls.append('nothing_after_cut')
    nt = changed and fills_before >= 1 and reb_after >= 1 and T < cal.date3(cfg['end'])
    return Result(cls, nontrivial=nt, info={'fills_before_cut': fills_before, 'rebalances_after_cut': reb_after})


@st.composite
def cases(draw):
    d0, d1, start, end = draw(sessgen.window(min_days=8, max_days=60))
    names = draw(market.symbol_names(1, 5))
    n = (d1 - d0).days
    kind = draw(st.sampled_from(['dense', 'dense', 'gappy', 'gappy', 'missing', 'gappy_missing']))
    seed = draw(st.integers(0, 2 ** 31))
    mk = {}
    labels = ['market_' + kind]
    wk = draw(st.sampled_from([False, False, True]))      # a seven-day vendor: some Saturdays and Sundays carry a bar
    if wk:
        labels.append('weekend_bars')
    late_idx = draw(st.integers(0, len(names) - 1)) if draw(st.sampled_from([False] * 6 + [True])) else -1
    for i, s in enumerate(names):
        late = i == late_idx
        first = d0 + D.timedelta(days=draw(st.integers(1, max(1, n // 2)))) if late else d0 - D.timedelta(days=7)
        rows = market.build_rows(seed + 31 * i, first, (d1 - first).days + 2, gappy='gappy' in kind,
                                 missing='missing' in kind, weekend_rows=wk)
        if not rows:
            rows = market.build_rows(seed + 31 * i, d0 - D.timedelta(days=7), n + 9)
        elif late:
            labels.append('late_start_symbol')
        mk[s] = rows
    cfg, lab = draw(sessgen.full_config(names, start, end))
    cut = d0 + D.timedelta(days=draw(st.one_of(st.integers(n // 4, (3 * n) // 4), st.integers(0, n))))
    if cfg['rebalance'] == 'end_of_month' and draw(st.booleans()):
        # a market holiday on the last weekday of a month inside the session: no symbol has a bar that day, and the
        # cut falls on the trading day before it
        ends = [d for d in cal.schedule_dates('end_of_month', d0 + D.timedelta(days=2), d1)]
        if ends:
            hol = draw(st.sampled_from(ends))
            for s in mk:
                mk[s] = [r for r in mk[s] if (r[0], r[1], r[2]) != (hol.year, hol.month, hol.day)]
            prev = hol - D.timedelta(days=1)
            while prev.weekday() > 4:
                prev -= D.timedelta(days=1)
            if all(mk.values()) and prev >= d0:
                cut = prev
                labels.append('holiday_on_a_month_end_cut_the_day_before')
    hol_cut = 'holiday_on_a_month_end_cut_the_day_before' in labels       # (that cut stays where it is)
    if wk and not hol_cut and draw(st.booleans()):
        # (with a seven-day vendor the cut often falls on a Friday: the first rows after it are weekend bars)
        c_ = cut - D.timedelta(days=(cut.weekday() - 4) % 7)
        if c_ >= d0:
            cut = c_
            labels.append('cut_on_a_friday_before_weekend_bars')
    if draw(st.sampled_from([False] * 7 + [True])):
        # an old-style market: every price sits on a quarter-point grid (whole numbers and quarters), adjusted closes at half
        mk = {s_: [r[:3] + [None if r[3] is None else max(0.25, round(r[3] * 4) / 4.0), None if r[4] is None else max(0.25, round(r[4] * 4) / 4.0),
                            None if r[4] is None or r[5] is None else max(0.25, round(r[4] * 4) / 4.0) * 0.5] for r in rows_] for s_, rows_ in mk.items()}
        labels.append('prices_on_a_quarter_point_grid')
    forced = None
    if 'late_start_symbol' in labels and not hol_cut and draw(st.sampled_from([False, True])):
        # the cut falls before the late symbol's first bar and the future is removed altogether: in that world the
        # symbol has no file at all
        fd_ = market.first_date(mk[names[late_idx]])
        c_ = fd_ - D.timedelta(days=draw(st.integers(1, 3)))
        if c_ >= d0:
            cut = c_
            forced = 'delete'
            labels.append('cut_before_the_late_symbol_starts')
    shape = draw(st.sampled_from([None] * 5 + ['open_only_lead', 'suspended_across_cut', 'suspended_across_cut']))
    if shape:
        s = draw(st.sampled_from(sorted(mk)))
        if shape == 'open_only_lead':
            # a symbol whose early bars, until a few days past the cut, carry an open but no closing prints yet
            stop = cut + D.timedelta(days=draw(st.integers(0, 4)))
            k = draw(st.sampled_from([0.5, 0.8, 1.0]))
            mk[s] = [r[:4] + [None, None] if D.date(r[0], r[1], r[2]) <= stop else
                     r[:5] + [None if r[4] is None else round(r[4] * k, 4)] for r in mk[s]]
            labels.append('opens_only_until_after_the_cut')
        else:
            # a symbol suspended for a few days around the cut: no rows at all, trading resumes afterwards
            lo = cut - D.timedelta(days=draw(st.sampled_from([0, 1, 2, 3, 8, 12, 16])))         # (up to two and a half weeks)
            hi = cut + D.timedelta(days=draw(st.sampled_from([0, 1, 2, 3, 8])))
            rows = [r for r in mk[s] if not lo <= D.date(r[0], r[1], r[2]) <= hi]
            if rows and any(D.date(r[0], r[1], r[2]) < lo for r in rows):
                mk[s] = rows
                labels.append('suspended_across_the_cut')
                if (cut - lo).days >= 8:
                    labels.append('suspended_for_over_a_week_before_the_cut')
                    if forced is None and draw(st.booleans()):
                        forced = 'delete'          # ... and in the other world nothing of the symbol follows the cut
    mode_ = draw(st.sampled_from(['rewrite', 'rewrite', 'delete', 'mix', 'wild', 'blank']))
    return {'cfg': cfg, 'market': mk, 'cut': [cut.year, cut.month, cut.day], 'drop_file': draw(st.booleans()) or bool(forced),
            'extra_cols': draw(st.sampled_from([False, False, True])),
            'mode': forced or mode_, 'seed': draw(st.integers(0, 10 ** 6)),
            'labels': labels + lab, 'reuse_handler': draw(st.sampled_from([False, False, True])),
            'file_order': draw(st.sampled_from(['sorted', 'sorted', 'reversed', 'shuffled'])),
            'second_source': draw(st.sampled_from([None, None, None, 0, 2, 9, 'late', 'late']))}


PARTS = [
    Part('pairs', 'hyp', run_case, strategy=cases(), quick=1280, thorough=48000, quick_shards=8),
]
