"""C09 - rebalancing trades the portfolio exactly onto its target."""
import pandas as pd
from hypothesis import strategies as st

from vlib import cal, gen, kit
from vlib.runner import Inconclusive, Part, Result, Violation
from vlib.sut import load

PROPERTY = 'C09'
RULE = ('Generated PortfolioConstructionModel calls on a real broker with stub quotes: prior holdings built by real '
        'fills (long, short, assets outside the universe, 0-4 of 7 assets with confusable names), static or dynamic '
        'universe (entries on / one minute after the rebalance instant), alpha weight dict a subset / superset / '
        'disjoint set relative to holdings and universe (or no alpha model at all), both order sizers (incl. default '
        'construction), zero/percentage fees, cash 300..1e6 so that one-share differences occur, 1-4 successive '
        'rebalances with quote moves and re-weighting in between, one construction model / sizer / optimiser instance '
        'serving all of them (as in a session), optionally a second portfolio on the account. Oracle: S = universe(dt) u held u keys(alpha); '
        'expected weights = alpha weight or 0.0 on S; target from a second call of the real sizer in the same '
        'broker state; orders must be exactly {a: target-held} for the non-zero differences, no zero quantity, no '
        'duplicate asset, ascending asset order, created_dt == dt; after submitting and one open-hours update the '
        'holdings equal the non-zero targets; unweighted held assets end at zero; the recorded allocation row has '
        'Date == dt and exactly the keys S with the expected weights. Non-trivial = some held asset is outside the '
        'universe or unweighted (must be liquidated) and some weighted asset is not held (long/short variant: a '
        'short position too).'
        " Round-10 reach: the equal-weight optimiser also without an alpha model (equal weight over the universe's members); a third of the cases put a user risk model between alpha model and optimiser (pass-through, halve, keep the first asset, or veto everything with an empty dictionary)."
        " Round-12 reach: orders sent through the ExecutionHandler (`via_exec`), PRINT_EVENTS on (`print_events`), weights with many decimals."
        " Round-13 reach: `lag` - the construction model is called at the rebalance instant while the broker's clock still stands at the morning's open and the quotes before that instant differ.")
ASSUMPTIONS = [
    'target quantities are taken from a second call of the real sizer (sizing is C10/C11\'s subject)',
    'every asset in the pool has a quote; 7-asset pool; up to 4 successive rebalances',
]
POOL = ['EQ:A', 'EQ:AB', 'EQ:A_1', 'EQ:B', 'EQ:C', 'EQ:SPY', 'EQ:Z9']
T0 = pd.Timestamp('2021-03-01 15:00:00', tz='UTC')       # Monday, open


class MutableAlpha(object):
    """User-supplied alpha model whose weights the harness changes between rebalances."""

    def __init__(self):
        self.weights = {}

    def __call__(self, dt):
        return dict(self.weights)


class SwitchUniverse(object):
    """User-supplied universe delegating to whichever real universe the harness installs."""

    def __init__(self):
        self.inner = None

    def get_assets(self, dt):
        return self.inner.get_assets(dt)


class RiskStub(object):
    """User-supplied risk model: passes the weights on, halves them, keeps only the first named asset, or vetoes
    every position (an empty dictionary); the harness sets the mode before each rebalance."""

    def __init__(self):
        self.mode = None

    def __call__(self, dt, weights):
        return apply_risk(self.mode, weights)


def apply_risk(mode, weights):
    if mode == 'halve':
        return {a: v / 2.0 for a, v in weights.items()}
    if mode == 'first':
        return {a: v for a, v in list(weights.items())[:1]}
    if mode == 'veto':
        return {}
    return dict(weights)


def build_universe(q, rb, tc):
    uni_assets = [POOL[i] for i in rb['universe']]
    if rb['dynamic']:
        dates = {}
        for i, a in enumerate(uni_assets):
            k = rb['entry'][i % len(rb['entry'])]
            dates[a] = None if k == 'none' else tc + pd.Timedelta(minutes={'on': 0, 'after': 1, 'before': -600}[k])
        return q.DynamicUniverse(dates)
    return q.StaticUniverse(uni_assets)


def named_assets(q, rb, use_risk):
    """The weight vector that reaches the optimiser: the alpha model's (or zeros over the universe's members when
    there is no alpha model), after the risk model."""
    tc = cal.ts(T0.date(), 21, 0)
    base = ({a: 0.0 for a in build_universe(q, rb, tc).get_assets(tc)} if rb.get('no_alpha')
            else {POOL[i]: v for i, v in rb['weights']})
    return apply_risk(rb.get('risk') if use_risk else None, base)


def next_open(t):
    d = t.date() + pd.Timedelta(days=1)
    while d.weekday() > 4:
        d = d + pd.Timedelta(days=1)
    return cal.ts(d, 14, 30)


def run_case(case):
    if not case.get('print_events'):
        return _run_case(case)
    # the library's default: PRINT_EVENTS on (everything it prints goes to a null device here)
    import contextlib
    import os
    q = load()
    q.settings.set_print_events(True)
    try:
        with open(os.devnull, 'w') as null, contextlib.redirect_stdout(null):
            res = _run_case(case)
        res.classes.append('print_events_on')
        return res
    finally:
        q.settings.set_print_events(False)


def _run_case(case):
    q = load()
    dh = kit.StubDH({a: (p, p) for a, p in zip(POOL, case['prices'])})
    b = q.SimulatedBroker(T0, q.SimulatedExchange(T0), dh, initial_funds=case['cash'], fee_model=kit.fee_model(case['fee']))
    b.create_portfolio('p')
    b.subscribe_funds_to_portfolio('p', case['cash'])
    if case.get('other_portfolio'):
        b.create_portfolio('z_other')            # orders of 'p' must fill into 'p', whatever else the account holds
        cls_other = True
    twin = bool(case.get('twin'))
    # an equal-weight optimiser between alpha model and sizer (only when every rebalance has an alpha model that names
    # at least one asset): the named assets share the weight equally, every other asset of the vector gets zero
    use_risk = bool(case.get('risk_model'))
    equal = case.get('optimiser') == 'equal' and all(named_assets(q, rb_, use_risk) for rb_ in case['rebalances'])

    def make_opt():
        return q.EqualWeightPortfolioOptimiser(data_handler=dh) if equal else q.FixedWeightPortfolioOptimiser(data_handler=dh)
    if twin:
        # a second portfolio of the same account runs the very same strategy with the same money: every rebalance
        # produces identical orders in both, and both must end on their targets
        b.subscribe_funds_to_account(case['cash'])
        b.create_portfolio('twin')
        b.subscribe_funds_to_portfolio('twin', case['cash'])
    for ai, n in case['holdings']:
        b.submit_order('p', q.Order(T0, POOL[ai], n))
        if twin:
            b.submit_order('twin', q.Order(T0, POOL[ai], n))
    b.update(T0)
    twin_objs = None
    long_only = case['long_only']
    t = T0
    cls = set()
    nt = False
    info = {'orders': 0, 'liquidations': 0, 'rebalances': 0}
    shared = None
    for rb_no, rb in enumerate(case['rebalances']):
        tc = cal.ts(t.date(), 21, 0)
        lag = bool(case.get('lag')) and rb_no > 0
        if lag:
            # the construction model is driven directly at the rebalance instant while the broker's clock still stands at
            # this morning's open (nobody called broker.update for the close), and the quotes moved since: universe, alpha
            # model and sizer are still asked about the rebalance instant
            dh.before = (tc, 0.9)
            cls.add('broker_clock_lags_the_rebalance_instant')
        else:
            b.update(tc)
        uni = build_universe(q, rb, tc)
        w_alpha = {POOL[i]: v for i, v in rb['weights']}
        no_alpha = rb.get('no_alpha', False)
        risk_mode = rb.get('risk') if use_risk else None
        reuse = case.get('reuse', False) and not no_alpha
        if reuse and shared:
            # one construction model, sizer and optimiser serve every rebalance of the case, as in a session
            pcm, sizer, alpha_obj, uni_obj = shared
        else:
            arg = case['rebalances'][0]['sizer_arg'] if reuse else rb['sizer_arg']
            if long_only:
                sizer = (q.DollarWeightedCashBufferedOrderSizer(b, 'p', dh) if arg == 'default' else
                         q.DollarWeightedCashBufferedOrderSizer(b, 'p', dh, cash_buffer_percentage=arg))
            else:
                sizer = (q.LongShortLeveragedOrderSizer(b, 'p', dh) if arg == 'default' else
                         q.LongShortLeveragedOrderSizer(b, 'p', dh, gross_leverage=arg))
            alpha_obj, uni_obj = MutableAlpha(), SwitchUniverse()
            pcm = q.PortfolioConstructionModel(b, 'p', uni_obj, sizer, make_opt(),
                                               alpha_model=None if no_alpha else alpha_obj,
                                               risk_model=RiskStub() if use_risk else None, data_handler=dh)
            if reuse:
                shared = (pcm, sizer, alpha_obj, uni_obj)
        if use_risk:
            pcm.risk_model.mode = risk_mode
        alpha_obj.weights = dict(w_alpha)
        uni_obj.inner = uni
        if twin and (twin_objs is None or twin_objs[4] is not pcm):          # rebuilt whenever the model of 'p' is
            arg2 = case['rebalances'][0]['sizer_arg'] if reuse else rb['sizer_arg']
            if long_only:
                sizer2 = (q.DollarWeightedCashBufferedOrderSizer(b, 'twin', dh) if arg2 == 'default' else
                          q.DollarWeightedCashBufferedOrderSizer(b, 'twin', dh, cash_buffer_percentage=arg2))
            else:
                sizer2 = (q.LongShortLeveragedOrderSizer(b, 'twin', dh) if arg2 == 'default' else
                          q.LongShortLeveragedOrderSizer(b, 'twin', dh, gross_leverage=arg2))
            a2, u2 = MutableAlpha(), SwitchUniverse()
            pcm2 = q.PortfolioConstructionModel(b, 'twin', u2, sizer2, make_opt(),
                                                alpha_model=None if no_alpha else a2,
                                                risk_model=RiskStub() if use_risk else None, data_handler=dh)
            twin_objs = (pcm2, sizer2, a2, u2, pcm)
        if twin:
            if use_risk:
                twin_objs[0].risk_model.mode = risk_mode
            twin_objs[2].weights = dict(w_alpha)
            twin_objs[3].inner = uni
        held = {a: d['quantity'] for a, d in b.get_portfolio_as_dict('p').items()}
        in_uni = list(uni.get_assets(tc))
        # what reaches the sizer: the alpha model's weights (zeros over the universe without one), after the risk
        # model, after the optimiser (equal weight: the named assets share the weight equally)
        w = apply_risk(risk_mode, {a: 0.0 for a in in_uni} if no_alpha else w_alpha)
        if equal:
            w = {a_: 1.0 / len(w) for a_ in w}
        S = set(in_uni) | set(held) | set(w)
        # same key order as the construction model uses (sorted universe u held, then the alpha's further keys): the
        # sizers add the weights up in dict order, and a float sum can differ in the last bit between orders
        fw = {a: 0.0 for a in sorted(set(in_uni) | set(held))}
        fw.update(w)
        tgt = {a: d['quantity'] for a, d in sizer(tc, dict(fw)).items()} if S else {}
        rev = {a: fw[a] for a in reversed(list(fw))}
        tgt_rev = {a: d['quantity'] for a, d in sizer(tc, rev).items()} if S else {}
        if tgt_rev != tgt:
            # a quotient sits on a rounding boundary: the target depends on the summation order of the weights
            return Result(sorted(cls) + ['order_sensitive_rounding'], excluded='order_sensitive_rounding')
        sized_all = set(tgt) == S
        if not sized_all:
            # the sizer left assets out (its own contract is C10/C11's subject): an asset without a weight has
            # target zero under either sizer, which is all the liquidation clause below needs
            cls.add('sizer_omitted_assets')
            tgt = {a: tgt.get(a, 0) for a in S}
        stats = {'target_allocations': []}
        orders = pcm(tc, stats=stats)
        exp = [(a, tgt[a] - held.get(a, 0)) for a in sorted(S) if tgt[a] - held.get(a, 0) != 0]
        got = [(o.asset, o.quantity) for o in orders]
        if sized_all and got != exp:
            raise Violation('rebalance at %s: orders %s, target - held is %s (held %s, target %s, universe %s, alpha %s)' % (
                tc, got, exp, held, tgt, in_uni, w))
        for o in orders:
            if o.created_dt != tc:
                raise Violation('order for %s created at %s, rebalance instant is %s' % (o.asset, o.created_dt, tc))
        rows = stats['target_allocations']
        if len(rows) != 1:
            raise Violation('rebalance recorded %d allocation rows' % len(rows))
        row = dict(rows[0])
        if row.pop('Date', None) != tc:
            raise Violation('allocation row dated %s, rebalance instant is %s' % (rows[0].get('Date'), tc))
        if row != fw:
            raise Violation('recorded target allocation %s, expected %s (alpha weight or 0.0 on universe u held u alpha)' % (
                row, fw))
        liq = [a for a in held if a not in w or w[a] == 0]
        forced = [a for a in held if a not in w]
        info['liquidations'] += len(forced)
        info['orders'] += len(orders)
        info['rebalances'] += 1
        if case.get('via_exec'):
            # the orders go to the broker through the execution handler, as a trading system sends them
            from qstrader.execution.execution_handler import ExecutionHandler
            from qstrader.execution.execution_algo.market_order import MarketOrderExecutionAlgorithm
            ExecutionHandler(b, 'p', uni_obj, submit_orders=True, execution_algo=MarketOrderExecutionAlgorithm(),
                             data_handler=dh)(tc, orders)
            cls.add('orders_sent_through_the_execution_handler')
        else:
            for o in orders:
                b.submit_order('p', o)
        if twin:
            held2 = {a: d['quantity'] for a, d in b.get_portfolio_as_dict('twin').items()}
            fw2 = {a: 0.0 for a in sorted(set(in_uni) | set(held2))}
            fw2.update(w)
            tgt2 = {a: d['quantity'] for a, d in twin_objs[1](tc, dict(fw2)).items()} if fw2 else {}
            orders2 = twin_objs[0](tc, stats={'target_allocations': []})
            if case.get('via_exec'):
                ExecutionHandler(b, 'twin', twin_objs[3], submit_orders=True, execution_algo=MarketOrderExecutionAlgorithm(),
                                 data_handler=dh)(tc, orders2)
            else:
                for o in orders2:
                    b.submit_order('twin', o)
        dh.before = None
        to = next_open(tc)
        for i, f in enumerate(rb['moves']):
            a = POOL[i]
            p = dh.q[a][0] * f
            dh.set(a, p, p)
        b.update(to)
        t = to
        now = {a: d['quantity'] for a, d in b.get_portfolio_as_dict('p').items()}
        want = {a: n for a, n in tgt.items() if n != 0}
        if sized_all and now != want:
            raise Violation('after the rebalance orders of %s filled: holdings %s, target %s' % (tc, now, want))
        if twin and sized_all:
            now2 = {a: d['quantity'] for a, d in b.get_portfolio_as_dict('twin').items()}
            want2 = {a: n for a, n in tgt2.items() if n != 0}
            if set(tgt2) == set(fw2) and now2 != want2:
                raise Violation('after the rebalance orders of %s filled: the twin portfolio (same strategy, same money) holds '
                                '%s, its target is %s' % (tc, now2, want2))
            cls.add('twin_portfolio_same_strategy')
        for a in held:
            if (a not in w or w[a] == 0) and a in now:
                raise Violation('held asset %s received no weight at %s but still holds %s after the fills' % (a, tc, now[a]))
        outside = [a for a in held if a not in in_uni]
        if outside:
            cls.add('held_outside_universe')
        if forced:
            cls.add('forced_liquidation')
        if any(a not in held for a in w if w[a] != 0):
            cls.add('weighted_not_held')
        if any(n < 0 for n in held.values()):
            cls.add('short_held')
        if any(abs(n) == 1 for _, n in exp):
            cls.add('order_qty_1')
        if no_alpha:
            cls.add('no_alpha_model')
            if equal:
                cls.add('no_alpha_model_equal_weight_over_the_universe')
        if risk_mode:
            cls.add('risk_model_' + risk_mode)
        if rb['sizer_arg'] == 'default':
            cls.add('default_sizer')
        if reuse and len(case['rebalances']) > 1:
            cls.add('model_reused_across_rebalances')
        if not S:
            cls.add('empty_asset_set')
        if set(w) and not (set(w) & (set(held) | set(in_uni))):
            cls.add('alpha_disjoint')
        if (outside or forced) and any(a not in held for a in w if w[a] != 0) and (long_only or any(
                n < 0 for n in held.values())):
            nt = True
    cls.add('long_only' if long_only else 'long_short')
    if case.get('other_portfolio'):
        cls.add('second_portfolio_on_account')
        if b.portfolios['z_other'].history or b.portfolios['z_other'].portfolio_to_dict():
            raise Violation('the other portfolio of the account received fills or cash: %s' % b.portfolios['z_other'].portfolio_to_dict())
    if equal:
        cls.add('equal_weight_optimiser')
    cls.add('rebalances_%d' % len(case['rebalances']))
    return Result(sorted(cls), nontrivial=nt, info=info)


@st.composite
def cases(draw):
    long_only = draw(st.booleans())
    cash = draw(st.sampled_from([1e6, 1e5, 1e4, 2000.0, 300.0]))
    prices = [draw(st.one_of(st.floats(1, 300).map(lambda x: float('%.5g' % x)), st.sampled_from([0.5, 1.0, 250.0])))
              for _ in POOL]
    nh = draw(st.integers(0, 4))
    hidx = draw(st.lists(st.integers(0, len(POOL) - 1), min_size=nh, max_size=nh, unique=True))
    holdings = []
    for i in hidx:
        n = max(1, int(draw(st.sampled_from([0.02, 0.05, 0.1])) * cash / prices[i]))
        n = draw(st.sampled_from([n, n, 1]))
        if not long_only and draw(st.booleans()):
            n = -n
        holdings.append([i, n])
    rebs = []
    for _ in range(draw(st.integers(1, 4))):
        uni = draw(st.lists(st.integers(0, len(POOL) - 1), min_size=0, max_size=5, unique=True))
        widx = draw(st.lists(st.integers(0, len(POOL) - 1), min_size=0, max_size=5, unique=True))
        weights = []
        for i in widx:
            v = draw(st.one_of(st.floats(0.05, 1).map(lambda x: float('%.3g' % x)), st.sampled_from([0.0, 1.0, 0.5]),
                               st.sampled_from([1.0 / 3.0, 0.123456789, 1.0 / 7.0])))
            if not long_only and draw(st.booleans()):
                v = -v
            weights.append([i, v])
        if long_only:
            arg = draw(st.sampled_from([0.05, 'default', 0.0, 0.3]))
        else:
            arg = draw(st.sampled_from([1.0, 'default', 2.0, 0.5]))
        rebs.append({
            'universe': uni, 'dynamic': draw(st.booleans()),
            'entry': draw(st.lists(st.sampled_from(['on', 'on', 'before', 'after', 'none']), min_size=1, max_size=3)),
            'weights': weights, 'sizer_arg': arg,
            'no_alpha': draw(st.sampled_from([False] * 9 + [True])),
            'risk': draw(st.sampled_from([None, None, 'halve', 'first', 'veto'])),
            'moves': [draw(st.sampled_from([1.0, 0.9, 1.1, 1.03, 0.97])) for _ in POOL],
        })
    return {'long_only': long_only, 'cash': cash, 'prices': prices, 'holdings': holdings,
            'fee': draw(st.sampled_from([None, None, [0.001, 0.0], [0.001, 0.005]])), 'rebalances': rebs,
            'reuse': draw(st.sampled_from([True, True, False])), 'other_portfolio': draw(st.booleans()),
            'twin': draw(st.sampled_from([False, False, True])),
            'optimiser': draw(st.sampled_from(['fixed', 'fixed', 'equal'])),
            'risk_model': draw(st.sampled_from([False, False, True])),
            'lag': draw(st.sampled_from([False, False, False, True])),
            'via_exec': draw(st.sampled_from([False, False, True])), 'print_events': draw(st.sampled_from([False, False, True]))}


PARTS = [
    Part('rebalances', 'hyp', run_case, strategy=cases(), quick=4000, thorough=160000, quick_shards=8),
]
