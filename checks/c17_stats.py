"""C17 - performance statistics match their definitions for every equity curve."""
import datetime as D
import json
import math
import os
import random
import tempfile
import warnings
from fractions import Fraction as F

import numpy as np
import pandas as pd
from hypothesis import strategies as st

from vlib import cal, gen
from vlib.runner import Part, Result, Violation
from vlib.sut import load

PROPERTY = 'C17'
RULE = ('Generated positive equity curves of length 2-600 on business-day date indexes starting anywhere 1995-2039 '
        '(1-30 months, year ends, ISO-week-53 years), shapes: random walk, monotone up, monotone down (first point is '
        'the peak), flat stretches (exact repeats), V-shape, spike, two-point; equity levels 10..1e6. Oracle in pure '
        'Python (exact rationals where possible): r0 = 0, rt = et/e(t-1) - 1; cumulative = et/e0; drawdown_t = 1 - '
        'cum_t / max_{s<=t} cum_s including t = 0; max drawdown; duration = longest under-water run (exact ties with '
        'an earlier peak accepted under both readings); monthly/yearly aggregates equal per-group compounding from an '
        'independent grouping and weekly/monthly/yearly each compound to e_last/e0 - 1; CAGR = cum_last^(252/n) - 1; '
        'Sharpe/Sortino = sqrt(252) x mean / population deviation of all / negative returns (asserted only when that '
        'deviation is >= 1e-6 x max|return|); all statistics unchanged when equity is multiplied by 2^k (bit-exact) '
        'or by an arbitrary positive constant (1e-9); TearsheetStatistics.get_results and JSONStatistics agree on '
        'every common number and series and to_file()/json.load round-trips; in half the cases a benchmark curve on the '
        'same dates is supplied and the benchmark section is checked against its own oracle. Non-trivial = >= 1 strictly under-water '
        'date, >= 2 calendar months and not monotone-up.'
        " Round-10 reach: a third of the frames carry `Cash` and `Positions` columns around `Equity` (tear sheet and JSON statistics)."
        " Round-11 reach: one case in fifty has 5001 or 5400 observations."
        " Round-13 reach: a curve without a single negative return must report a NaN Sortino.")
ASSUMPTIONS = [
    'positive equity, business-day date index (datetime.date) as produced by get_equity_curve()',
    'Sharpe/Sortino compared only when their denominator is well conditioned; Sortino only with >= 2 negative returns',
    'float tolerance 1e-9 (drawdowns absolute, other statistics relative)',
]
SHAPES = ['walk', 'up', 'down', 'flat', 'vee', 'spike', 'walk_small', 'nearly_flat', 'fixed_fee', 'wipeout']


def build_curve(seed, n, shape, e0):
    rnd = random.Random(seed)
    e = [e0]
    for i in range(1, n):
        if shape == 'walk':
            k = 1 + rnd.uniform(-.05, .05)
        elif shape == 'walk_small':
            k = 1 + rnd.uniform(-.002, .002)
        elif shape == 'up':
            k = 1 + rnd.uniform(0.0001, .03)
        elif shape == 'down':
            k = 1 - rnd.uniform(0.0001, .03)
        elif shape == 'flat':
            k = 1.0 if rnd.random() < .6 else 1 + rnd.uniform(-.05, .05)
        elif shape == 'nearly_flat':
            # a cash account credited a few cents now and then: returns of the order of 1e-8
            e.append(float('%.10g' % (e[-1] + (0.05 if rnd.random() < 0.05 else 0.0))))
            continue
        elif shape == 'fixed_fee':
            # a large account charged a fixed-rate daily fee booked to the cent, with the odd up day: the losing days'
            # returns agree to seven or eight digits
            if rnd.random() < 0.85:
                e.append(round(e[-1] * (1 - 1e-4), 2))
            else:
                e.append(round(e[-1] * (1 + rnd.uniform(0, .002)), 2))
            continue
        elif shape == 'wipeout':
            # one session loses all but a few thousandths of a percent of the account, which then rebuilds
            k = 3.7e-5 if i == max(1, n // 3) else 1 + rnd.uniform(-.01, .06)
        elif shape == 'vee':
            k = 1 - rnd.uniform(0, .03) if i < n // 2 else 1 + rnd.uniform(0, .04)
        else:
            k = rnd.choice([1.0, 1.0, 3.0, 0.3, 1 + rnd.uniform(-.01, .01)])
        e.append(float('%.10g' % (e[-1] * k)))
    return e


def pstd(xs):
    n = len(xs)
    m = math.fsum(xs) / n
    return math.sqrt(math.fsum((x - m) ** 2 for x in xs) / n)


def close(a, b, tol=1e-9, floor=0.0):
    if math.isnan(a) or math.isnan(b):
        return math.isnan(a) and math.isnan(b)
    if math.isinf(a) or math.isinf(b):
        return a == b
    return abs(a - b) <= tol * max(abs(a), abs(b), floor)


def oracle(e, idx):
    n = len(e)
    r = [0.0] + [float(F(e[i]) / F(e[i - 1]) - 1) for i in range(1, n)]
    cum = [F(x) / F(e[0]) for x in e]
    hw, m = [], None
    for c in cum:
        m = c if m is None or c > m else m
        hw.append(m)
    dd = [1 - c / h for c, h in zip(cum, hw)]
    # duration: strictly under water.  A point that comes back to exactly the previous peak after an under-water spell
    # is ambiguous (the library re-accumulates the curve in floating point: such a point may come out an ulp below the
    # peak) - and so is every following point that stays exactly there: the upper reading runs on until the curve
    # exceeds that peak
    lo = hi = cur_lo = cur_hi = 0
    for i, x in enumerate(dd):
        under = x > 0
        tie = (not under) and i > 0 and cur_hi > 0 and cum[i] == hw[i - 1]
        cur_lo = cur_lo + 1 if under else 0
        cur_hi = cur_hi + 1 if (under or tie) else 0
        lo, hi = max(lo, cur_lo), max(hi, cur_hi)
    agg = {}
    for per, key in (('monthly', lambda d: (d.year, d.month)), ('yearly', lambda d: (d.year,))):
        g = {}
        for d, i in zip(idx, range(n)):
            g.setdefault(key(d), []).append(i)
        agg[per] = {k: float(F(e[v[-1]]) / F(e[v[0] - 1 if v[0] > 0 else 0]) - 1) for k, v in g.items()}
    return {'r': r, 'cum': [float(c) for c in cum], 'dd': [float(x) for x in dd], 'maxdd': float(max(dd)),
            'dur': (lo, hi), 'agg': agg, 'total': float(cum[-1] - 1), 'cum_last': float(cum[-1])}


def curve_frame(e, idx, extra_cols=False):
    """The equity-curve frame: the 'Equity' column, optionally among other columns of an account report (the
    statistics are defined on the column labelled 'Equity')."""
    if not extra_cols:
        return pd.DataFrame({'Equity': list(e)}, index=list(idx))
    return pd.DataFrame({'Cash': [1000.0 + 37.0 * (i % 5) for i in range(len(e))], 'Equity': list(e),
                         'Positions': [float(i % 3) for i in range(len(e))]}, index=list(idx))


def stats_for(q, e, idx, tmp=None, periods=252, alloc_lag=0, extra_cols=False):
    eq = curve_frame(e, idx, extra_cols)
    # (the allocation frame may start later than the curve: weights exist only from the first rebalance on)
    lag = min(alloc_lag, max(0, len(e) - 1))
    alloc = pd.DataFrame({'EQ:A': [1.0] * (len(e) - lag)}, index=list(idx)[lag:])
    if periods == 252:
        js = q.JSONStatistics(eq.copy(), alloc, output_filename=tmp or 'statistics.json')
    else:
        js = q.JSONStatistics(eq.copy(), alloc, output_filename=tmp or 'statistics.json', periods=periods)
    return js, js.statistics['strategy']


def _panel_numbers(ts_obj, tr, tb):
    """The numbers the tear sheet's text panel shows: {row: (strategy text, benchmark text or None)}."""
    import matplotlib
    matplotlib.use('Agg')
    import matplotlib.pyplot as plt
    fig = plt.figure()
    try:
        ax0 = fig.add_subplot(211)
        ax = fig.add_subplot(212)
        with warnings.catch_warnings():
            warnings.simplefilter('ignore')
            # the order plot_results() uses: the equity chart is drawn first, then the text panel reads the same results
            ts_obj._plot_equity(tr, bench_stats=tb, ax=ax0)
            ts_obj._plot_txt_curve(tr, bench_stats=tb, ax=ax)
        rows = {6.9: 'total', 5.9: 'cagr', 4.9: 'sharpe', 3.9: 'sortino', 1.9: 'maxdd', 0.9: 'dur'}
        out = {}
        for t in ax.texts:
            x, y = t.get_position()
            name = rows.get(round(y, 1))
            if name and round(x, 1) in (7.5, 10.0):
                out.setdefault(name, [None, None])[0 if round(x, 1) == 7.5 else 1] = t.get_text()
        return out
    finally:
        plt.close(fig)


def _shown(txt):
    return float(txt.rstrip('%'))


def check_panel(shown, col, o, n, P, who):
    """Every number printed in the panel column equals the statistic of that curve, to the printed precision."""
    r = o['r']
    want = {'total': (o['total'] * 100, 0.5), 'cagr': ((o['cum_last'] ** (float(P) / n) - 1) * 100, 0.005),
            'maxdd': (o['maxdd'] * 100, 0.005)}
    mx = max(abs(x) for x in r)
    sd = pstd(r)
    if mx > 0 and sd >= 1e-6 * mx:
        want['sharpe'] = (math.sqrt(P) * (math.fsum(r) / n) / sd, 0.005)
    neg = [x for x in r if x < 0]
    if len(neg) >= 2 and pstd(neg) >= 1e-6 * max(abs(x) for x in neg):
        want['sortino'] = (math.sqrt(P) * (math.fsum(r) / n) / pstd(neg), 0.005)
    for name, (w, half) in want.items():
        txt = shown[name][col]
        g = _shown(txt)
        if not abs(g - w) <= half + 1e-6 * max(1.0, abs(w)):
            raise Violation('tear-sheet text panel shows %s %s = %s; the %s curve gives %r' % (who, name, txt, who, w))
    lo, hi = o['dur']
    g = _shown(shown['dur'][col])
    if not lo <= g <= hi:
        raise Violation('tear-sheet text panel shows %s drawdown duration %s; the %s curve\'s longest under-water run is %s' % (
            who, shown['dur'][col], who, lo if lo == hi else (lo, hi)))


def _bench_curve(case, idx):
    """The benchmark curve and its dates; with `benchmark_lead` it starts earlier than the strategy's (its own dates,
    its own statistics)."""
    be = case['benchmark']
    bidx = list(idx)
    if case.get('benchmark_lead'):
        d = idx[0]
        lead = []
        while len(lead) < case['benchmark_lead']:
            d -= D.timedelta(days=1)
            if d.weekday() < 5:
                lead.append(d)
        bidx = lead[::-1] + list(idx)
        be = [be[0] * (1 + 0.001 * ((k * 7) % 5 - 2)) for k in range(len(lead))] + list(be)
    return be, bidx


def run_case(case):
    q = load()
    import qstrader.statistics.performance as perf
    from qstrader.statistics.json_statistics import JSONStatistics
    from qstrader.statistics.tearsheet import TearsheetStatistics
    q.JSONStatistics = JSONStatistics
    e = case['equity']
    n = len(e)
    d0 = cal.date3(case['start'])
    idx = []
    d = d0
    hol = case.get('holidays', 0)
    while len(idx) < n:
        # (with `holidays` some weekdays have no row at all: exchange holidays)
        if d.weekday() < 5 and not (hol and (d.toordinal() % hol == 0)):
            idx.append(d)
        d += D.timedelta(days=1)
    o = oracle(e, idx)
    P = case.get('periods', 252)
    fd, tmp = tempfile.mkstemp(prefix='vq_stats_', suffix='.json')
    os.close(fd)
    try:
        js, s = stats_for(q, e, idx, tmp, P, alloc_lag=case.get('alloc_lag', 0), extra_cols=case.get('extra_cols', False))
        if len(s['equity_curve']) != n:
            raise Violation('statistics cover %d observations, the equity curve has %d (allocations start %d rows later)' % (
                len(s['equity_curve']), n, case.get('alloc_lag', 0)))
        # returns / cumulative returns
        got_r = [v for _, v in s['returns']]
        got_c = [v for _, v in s['cum_returns']]
        for i in range(n):
            if not close(got_r[i], o['r'][i], 1e-9, 1e-3):
                raise Violation('return on %s is %r, e_t/e_(t-1) - 1 = %r' % (idx[i], got_r[i], o['r'][i]))
            if not close(got_c[i], o['cum'][i], 1e-9):
                raise Violation('cumulative return on %s is %r, e_t/e_0 = %r' % (idx[i], got_c[i], o['cum'][i]))
        # drawdowns
        got_dd = [v for _, v in s['drawdowns']]
        for i in range(n):
            if abs(got_dd[i] - o['dd'][i]) > 1e-9:
                raise Violation('drawdown on %s (point %d of %d) is %r; 1 - value/running maximum (first observation '
                                'included) is %r' % (idx[i], i, n, got_dd[i], o['dd'][i]))
        if abs(float(s['max_drawdown']) - o['maxdd']) > 1e-9:
            raise Violation('max drawdown %r, maximum of the drawdown series is %r' % (float(s['max_drawdown']), o['maxdd']))
        lo, hi = o['dur']
        near_tie = False
        if not lo <= s['max_drawdown_duration'] <= hi:
            # (the library accumulates the curve as exp(cumsum(log(1 + r))): its noise grows with the length, and a point
            # within that noise of the running maximum may or may not count as under water)
            if not _near_peak_revisit(o, n):
                raise Violation('max drawdown duration %r, longest under-water run is %s' % (
                    s['max_drawdown_duration'], lo if lo == hi else (lo, hi)))
            near_tie = True
        # aggregates
        rs = pd.Series(o['r'], index=idx)
        for per in ('weekly', 'monthly', 'yearly'):
            got = perf.aggregate_returns(pd.Series(got_r, index=idx), per)
            gd = {(k if isinstance(k, tuple) else (k,)): float(v) for k, v in got.items()}
            tot = math.prod(1 + v for v in gd.values()) - 1
            # (a period return is stored as growth - 1: for a period that loses nearly everything the growth factor
            # 1 + v is known only to eps / (1 + v), and re-compounding inherits that)
            amp = sum(4e-16 / abs(1 + v) for v in gd.values() if v != -1.0)
            if not (close(tot, o['total'], 1e-8, 1e-3) or abs((1 + tot) - (1 + o['total'])) <= (1e-9 + amp) * abs(1 + o['total'])):
                raise Violation('%s aggregates compound to %r, the daily series to %r' % (per, tot, o['total']))
            if per in o['agg']:
                exp = o['agg'][per]
                if set(gd) != set(exp):
                    raise Violation('%s aggregate groups %s, calendar groups %s' % (per, sorted(gd)[:4], sorted(exp)[:4]))
                for k in exp:
                    if not close(gd[k], exp[k], 1e-8, 1e-3):
                        raise Violation('%s return for %s is %r, compounding its daily returns gives %r' % (
                            per, k, gd[k], exp[k]))
        ma = dict((tuple(k), v) for k, v in s['monthly_agg_returns'])
        for k, v in o['agg']['monthly'].items():
            if not close(float(ma[k]), v, 1e-8, 1e-3):
                raise Violation('reported monthly return %s = %r, expected %r' % (k, ma[k], v))
        # the chart-ready lists carry the same numbers: [month 0-11, index of the year, percent] and percent per year
        years_ = sorted(set(k[0] for k in o['agg']['monthly']))
        hc = dict(((years_[int(yi)], int(mi) + 1), float(v)) for mi, yi, v in s['monthly_agg_returns_hc'])
        if set(hc) != set(o['agg']['monthly']):
            raise Violation('chart list of monthly returns covers %s, the curve has the months %s' % (
                sorted(set(o['agg']['monthly']) - set(hc))[:4] or sorted(set(hc) - set(o['agg']['monthly']))[:4],
                sorted(o['agg']['monthly'])[:3]))
        for k, v in o['agg']['monthly'].items():
            if not close(hc[k] / 100.0, v, 1e-8, 1e-3):
                raise Violation('chart list monthly return %s = %r %%, expected %r %%' % (k, hc[k], v * 100))
        yh = [float(v) for v in s['yearly_agg_returns_hc']]
        ye = [o['agg']['yearly'][k] for k in sorted(o['agg']['yearly'])]
        if len(yh) != len(ye) or any(not close(a_ / 100.0, b_, 1e-8, 1e-3) for a_, b_ in zip(yh, ye)):
            raise Violation('chart list of yearly returns %s, expected %s (percent)' % (yh[:3], [x * 100 for x in ye[:3]]))
        # CAGR, Sharpe, Sortino
        cagr = o['cum_last'] ** (float(P) / n) - 1
        if not close(float(s['cagr']), cagr, 1e-9, 1.0):         # CAGR is (growth factor) - 1: noise is relative to 1 + CAGR
            raise Violation('CAGR %r, final cumulative return ^ (%s/%d) - 1 = %r' % (float(s['cagr']), P, n, cagr))
        r = o['r']
        mx = max(abs(x) for x in r)
        sd = pstd(r)
        cls = [case['shape'], 'periods_%s' % P] + (['integer_equity_column'] if case.get('whole_units') else []) + (
            ['equity_among_other_columns'] if case.get('extra_cols') else [])
        if mx > 0 and sd >= 1e-6 * mx:
            want = math.sqrt(P) * (math.fsum(r) / n) / sd
            if not close(float(s['sharpe']), want, 1e-7, 1e-6):
                raise Violation('Sharpe %r, sqrt(%s) x mean / population deviation = %r' % (float(s['sharpe']), P, want))
            cls.append('sharpe_checked')
        neg = [x for x in r if x < 0]
        if len(neg) >= 2 and pstd(neg) >= 1e-8 * max(abs(x) for x in neg):
            want = math.sqrt(P) * (math.fsum(r) / n) / pstd(neg)
            # (each return e_t/e_(t-1) - 1 carries an absolute rounding error of about one ulp of 1.0; for nearly equal
            # losses that noise is large relative to their spread, and the deviation inherits it)
            if not close(float(s['sortino']), want, max(1e-7, 2e-15 / pstd(neg)), 1e-6):
                raise Violation('Sortino %r, sqrt(%s) x mean / population deviation of negative returns = %r' % (
                    float(s['sortino']), P, want))
            cls.append('sortino_checked')
        if not neg and n >= 2:
            # no losing period at all: the set of negative returns is empty and its deviation - hence the ratio - undefined
            sv = float(s['sortino'])
            if not math.isnan(sv):
                raise Violation('Sortino %r for a curve without a single negative return (the deviation of no losses is undefined)' % sv)
            cls.append('no_negative_return')
        if len(neg) == 1 and abs(math.fsum(r) / n) > 1e-12:
            # a single losing day: the deviation of the negative returns is 0, the ratio is infinite (sign of the mean)
            sv = float(s['sortino'])
            if not (math.isinf(sv) and (sv > 0) == (math.fsum(r) > 0)):
                raise Violation('Sortino %r with exactly one negative return (%r); mean / zero deviation is %sinf' % (
                    sv, neg[0], '' if math.fsum(r) > 0 else '-'))
            cls.append('single_negative_return')
        if not close(float(s['mean_returns']), math.fsum(r) / n, 1e-9, 1e-6):
            raise Violation('mean return %r != %r' % (float(s['mean_returns']), math.fsum(r) / n))
        if mx > 0 and sd >= 1e-6 * mx and not close(float(s['stdev_returns']), sd, 1e-7):
            raise Violation('deviation of returns %r, population deviation %r' % (float(s['stdev_returns']), sd))
        # tearsheet == JSON
        eq = curve_frame(e, idx, case.get('extra_cols', False))
        ts_obj = TearsheetStatistics(eq.copy()) if P == 252 else TearsheetStatistics(eq.copy(), periods=P)
        tr = ts_obj.get_results(eq.copy())
        if case.get('benchmark'):
            # the same tearsheet object then serves the benchmark curve (as plot_results does): the strategy's results
            # must not change under our feet
            ts_obj.get_results(pd.DataFrame({'Equity': list(case['benchmark'])}, index=list(idx)))
        if case.get('panel'):
            tb = None
            if case.get('benchmark'):
                pbe, pbidx = _bench_curve(case, idx)           # possibly starting before the strategy's first date
                tb = ts_obj.get_results(pd.DataFrame({'Equity': list(pbe)}, index=list(pbidx)))
            shown = _panel_numbers(ts_obj, tr, tb)
            check_panel(shown, 0, o, n, P, 'strategy')
            if tb is not None:
                check_panel(shown, 1, oracle(pbe, pbidx), len(pbe), P, 'benchmark')
            cls.append('text_panel_checked' + ('_with_benchmark' if tb is not None else ''))
        pairs = [('sharpe', float(tr['sharpe']), float(s['sharpe'])),
                 ('max_drawdown', float(tr['max_drawdown']), float(s['max_drawdown'])),
                 ('max_drawdown_pct', float(tr['max_drawdown_pct']), float(s['max_drawdown'])),
                 ('max_drawdown_duration', float(tr['max_drawdown_duration']), float(s['max_drawdown_duration']))]
        for name, a, b in pairs:
            if not (a == b or (math.isnan(a) and math.isnan(b))):
                raise Violation('tearsheet %s = %r, JSON export = %r' % (name, a, b))
        for name, key in (('drawdowns', 'drawdowns'), ('returns', 'returns'), ('cum_returns', 'cum_returns'),
                          ('equity', 'equity_curve')):
            a = [float(x) for x in tr[name]]
            b = [v for _, v in s[key]]
            if len(a) != len(b) or any(not (x == y or (math.isnan(x) and y == 0.0)) for x, y in zip(a, b)):
                raise Violation('tearsheet %s series differs from the JSON export' % name)
        # JSON file round trip
        js.to_file()
        with open(tmp) as fh:
            dj = json.load(fh)['strategy']
        for k in ('max_drawdown', 'cagr', 'sharpe', 'sortino', 'max_drawdown_duration', 'mean_returns', 'stdev_returns',
                  'annualised_vol'):
            a, b = float(dj[k]), float(s[k])
            if not (a == b or (math.isnan(a) and math.isnan(b))):
                raise Violation('statistics.json %s = %r, in memory %r' % (k, a, b))
        if [v for _, v in dj['drawdowns']] != got_dd or [v for _, v in dj['equity_curve']] != [v for _, v in s['equity_curve']]:
            raise Violation('statistics.json series differ from the in-memory statistics')
        # the benchmark section of the JSON export is computed from the benchmark curve, not from the strategy
        if case.get('benchmark'):
            be, bidx = _bench_curve(case, idx)
            if case.get('benchmark_lead'):
                cls.append('benchmark_on_other_dates')
            nb = len(be)
            bo = oracle(be, bidx)
            beq = pd.DataFrame({'Equity': list(be)}, index=list(bidx))
            eq0 = pd.DataFrame({'Equity': list(e)}, index=list(idx))
            alloc = pd.DataFrame({'EQ:A': [1.0] * n}, index=list(idx))
            jb = q.JSONStatistics(eq0, alloc, benchmark_curve=beq, output_filename=tmp, periods=P).statistics
            sb, ss = jb['benchmark'], jb['strategy']
            if abs(float(sb['max_drawdown']) - bo['maxdd']) > 1e-9:
                raise Violation('benchmark max drawdown %r, definition gives %r' % (float(sb['max_drawdown']), bo['maxdd']))
            if not close(float(sb['cagr']), bo['cum_last'] ** (float(P) / nb) - 1, 1e-9, 1.0):
                raise Violation('benchmark CAGR %r, definition over its own %d observations gives %r' % (
                    float(sb['cagr']), nb, bo['cum_last'] ** (float(P) / nb) - 1))
            if len(sb['equity_curve']) != nb:
                raise Violation('benchmark section has %d observations, the benchmark curve %d' % (len(sb['equity_curve']), nb))
            for per, key in (('monthly', 'monthly_agg_returns'), ('yearly', 'yearly_agg_returns')):
                got = dict(((tuple(k) if isinstance(k, (tuple, list)) else (k,)), float(v)) for k, v in sb[key])
                for k, v in bo['agg'][per].items():
                    if k not in got or not close(got[k], v, 1e-8, 1e-3):
                        raise Violation('benchmark %s return for %s is %r, compounding its own daily returns gives %r' % (
                            per, k, got.get(k), v))
            got_dd_b = [v for _, v in sb['drawdowns']]
            if any(abs(a - b) > 1e-9 for a, b in zip(got_dd_b, bo['dd'])):
                raise Violation('benchmark drawdown series differs from the definition')
            if [v for _, v in ss['drawdowns']] != got_dd or float(ss['cagr']) != float(s['cagr']):
                raise Violation('strategy statistics change when a benchmark curve is supplied')
            cls.append('with_benchmark')
        # a frame that was analysed once, then cut to a later start (a burn-in) and analysed again: the second
        # analysis describes the shorter curve
        if case.get('reslice') and n >= 6:
            k_ = max(1, n // 3)
            frame = pd.DataFrame({'Equity': list(e)}, index=list(idx))
            alloc_ = pd.DataFrame({'EQ:A': [1.0] * n}, index=list(idx))
            q.JSONStatistics(frame, alloc_, output_filename=tmp, periods=P)
            sl = q.JSONStatistics(frame.iloc[k_:], alloc_.iloc[k_:], output_filename=tmp, periods=P).statistics['strategy']
            o2 = oracle(e[k_:], idx[k_:])
            if not close(float(sl['cagr']), o2['cum_last'] ** (float(P) / (n - k_)) - 1, 1e-9, 1.0):
                raise Violation('CAGR of the curve cut to its last %d observations (frame analysed once before) is %r; the '
                                'definition gives %r' % (n - k_, float(sl['cagr']), o2['cum_last'] ** (float(P) / (n - k_)) - 1))
            if abs(float(sl['max_drawdown']) - o2['maxdd']) > 1e-9 or abs(sl['returns'][0][1]) > 0:
                raise Violation('statistics of a re-analysed, shortened frame: max drawdown %r (definition %r), first return %r' % (
                    float(sl['max_drawdown']), o2['maxdd'], sl['returns'][0][1]))
            cls.append('frame_analysed_twice_second_time_shortened')
        # scale invariance
        k2 = 2.0 ** case['pow2']
        _, s2 = stats_for(q, [x * k2 for x in e], idx, tmp, P)
        for k in ('max_drawdown', 'cagr', 'sharpe', 'sortino', 'max_drawdown_duration', 'mean_returns', 'stdev_returns'):
            a, b = float(s[k]), float(s2[k])
            if not (a == b or (math.isnan(a) and math.isnan(b))):
                raise Violation('%s changes from %r to %r when equity is multiplied by 2^%d' % (k, a, b, case['pow2']))
        if [v for _, v in s2['drawdowns']] != got_dd:
            raise Violation('drawdown series changes when equity is multiplied by 2^%d' % case['pow2'])
        c = case['scale']
        _, s3 = stats_for(q, [x * c for x in e], idx, tmp, P)
        for k in ('max_drawdown', 'cagr'):
            if not close(float(s[k]), float(s3[k]), 1e-9, 1.0):
                raise Violation('%s changes from %r to %r when equity is multiplied by %r' % (k, float(s[k]), float(s3[k]), c))
        if mx > 0 and sd >= 1e-6 * mx and not close(float(s['sharpe']), float(s3['sharpe']), 1e-6, 1e-6):
            raise Violation('Sharpe changes from %r to %r when equity is multiplied by %r' % (
                float(s['sharpe']), float(s3['sharpe']), c))
        if lo == hi and s3['max_drawdown_duration'] != s['max_drawdown_duration']:
            # scaling by a non-power of two can create or destroy float ties with a previous peak
            ties3 = not (o['dur'][0] <= s3['max_drawdown_duration'] <= o['dur'][1])
            if ties3 and not _near_peak_revisit(o, n):
                raise Violation('max drawdown duration changes from %r to %r when equity is multiplied by %r' % (
                    s['max_drawdown_duration'], s3['max_drawdown_duration'], c))
    finally:
        if os.path.exists(tmp):
            os.remove(tmp)
    months = len(set((d.year, d.month) for d in idx))
    under = any(x > 0 for x in o['dd'])
    mono_up = all(e[i] >= e[i - 1] for i in range(1, n))
    if o['dd'][1] > 0 if n > 1 else False:
        cls.append('first_point_is_peak')
    if lo != hi:
        cls.append('duration_tie_ambiguous')
    if near_tie:
        cls.append('duration_within_float_noise_of_a_tie')
    if months >= 12:
        cls.append('spans_year')
    if any(d.isocalendar()[1] == 53 for d in idx):
        cls.append('iso_week_53')
    if n == 2:
        cls.append('two_points')
    return Result(cls, nontrivial=under and months >= 2 and not mono_up)


def _near_peak_revisit(o, n=0):
    """True when some point comes within float noise (1e-12 relative, or 16 n ulp for long curves) of the running
    maximum without being it."""
    tol = max(1e-12, 16 * n * 2.3e-16)
    m = None
    for c in o['cum']:
        if m is not None and c != m and abs(c - m) <= tol * m:
            return True
        m = c if m is None or c > m else m
    return False


@st.composite
def cases(draw):
    shape = draw(st.sampled_from(SHAPES))
    n = draw(st.one_of(st.integers(13, 120), st.integers(3, 12), st.integers(121, 600), st.integers(30, 300), st.just(2)))
    if draw(st.sampled_from([False] * 49 + [True])):
        n = draw(st.sampled_from([5001, 5400]))          # twenty years of daily observations
    d0 = draw(st.one_of(st.dates(min_value=D.date(1995, 1, 1), max_value=D.date(2037, 1, 1)),
                        st.sampled_from([D.date(2020, 12, 21), D.date(2015, 12, 24), D.date(2026, 12, 28), D.date(1999, 12, 27)])))
    e0 = draw(st.one_of(gen.logu(10, 1e6), st.sampled_from([100.0, 1e6, 1e4])))
    if shape == 'nearly_flat':
        e0 = 2.5e6
    if shape == 'fixed_fee':
        e0 = 1e9
    if shape == 'wipeout':
        e0 = 1e7
    e = build_curve(draw(st.integers(0, 2 ** 31)), n, shape, e0)
    # (only while every value fits a 64-bit integer column exactly: larger Python ints become an object column)
    whole = e0 >= 1e4 and max(e) < 2.0 ** 53 and draw(st.sampled_from([False, False, False, True]))
    if whole:
        # equity recorded in whole currency units: an integer column
        e = [max(1, int(round(x))) for x in e]
    bench = None
    if draw(st.sampled_from([False, True])):
        bench = build_curve(draw(st.integers(0, 2 ** 31)), n, draw(st.sampled_from(SHAPES)), draw(st.sampled_from([100.0, 5e4])))
    return {'whole_units': whole, 'shape': shape, 'start': [d0.year, d0.month, d0.day], 'equity': e, 'benchmark': bench,
            'benchmark_lead': draw(st.sampled_from([0, 0, 5, 40])) if bench else 0,
            'panel': draw(st.sampled_from([False, False, False, True])),
            'extra_cols': draw(st.sampled_from([False, False, True])), 'alloc_lag': draw(st.sampled_from([0, 0, 1, 21])), 'holidays': draw(st.sampled_from([0, 0, 9, 23])),
            'reslice': draw(st.sampled_from([False, False, True])),
            'periods': draw(st.sampled_from([252, 252, 52, 12, 365])), 'pow2': draw(st.sampled_from([1, -3, 10, 4])),
            'scale': draw(st.sampled_from([3.7, 0.01, 1e3, 1.1, 0.37]))}


PARTS = [
    Part('curves', 'hyp', run_case, strategy=cases(), quick=1000, thorough=128000, quick_shards=8),
]
