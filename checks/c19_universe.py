"""C19 - assets trade only while they belong to the universe."""
import datetime as D
import math

import pandas as pd
from hypothesis import strategies as st

from vlib import cal, kit, market, sessgen, session
from vlib.runner import Part, Result, Violation
from vlib.sut import clear_caches, load

PROPERTY = 'C19'
RULE = ('(universes) DynamicUniverse / StaticUniverse alone: entry maps over 1-8 assets with None entries, queried at '
        'entry - 1 min / exactly / + 1 min / - 1 s / far before / far after; result must be duplicate-free and equal {a: '
        'entry != None and entry <= t} in map order; static returns its configured list at any time. (optimisers) '
        'fixed-weight returns its input unchanged; equal-weight (default and explicit scale) returns the same keys, '
        'every value scale/N, summing to the scale (1e-12), for 1-8 assets incl. single-asset and zero/negative input '
        'weights, the same optimiser instances serving several dicts (same size / other assets included) '
        'weights. (sessions) full backtests: dynamic universe x SingleSignalAlphaModel x every schedule x both sizers '
        'x dense markets whose data exist from before every entry; entries before the start, exactly on a rebalance '
        'instant, one minute after it, mid-range, after the end, None. Oracle: every recorded allocation row at '
        'instant r has exactly the keys {a: entry <= r} with the signal as weight (inclusive boundary, from the first '
        'such rebalance on); every fill in asset a is later than the first rebalance with entry_a <= r; assets with '
        'None or post-end entry never appear in a row, a fill or the holdings. Non-trivial = (sessions) an entry '
        'exactly on an instant and one a minute after it in one case; (universes) a query exactly at an entry; '
        '(optimisers) >= 2 assets.'
        ' Round-5 reach: the universe-driven alpha model is also built with its optional data-handler argument (a handler pricing every other asset): its signals still cover exactly the members.'
        " Round-10 reach: configured static lists naming a symbol twice; `static` part: a second strategy with its own portfolio and static universe on the same account (after every rebalance each portfolio holds assets of its own universe only)."
        " Round-11 reach: whole-number / boolean weight dictionaries for the optimisers; entry dates given as datetime.datetime; a MomentumSignal built over the universe takes up later entrants before the universe is queried."
        " Round-12 reach: mixed-case symbols (EQ:Brk.b, EQ:spy); entry instants carrying a fraction of a second."
        " Round-13 reach: optimisers given a data handler that carries a universe of its own; the entry mapping of a live universe edited in place; an entry exactly at the last instant of a plain-date end, with the public allocation table's columns checked.")
ASSUMPTIONS = [
    'UTC-aware timestamps; up to 8 assets (direct) / 5 symbols (sessions); sessions of 8-60 days',
    'session markets are dense with data from 9 days before the start (an unpriced member is C06/C07\'s subject)',
]
T0 = pd.Timestamp('2021-03-01 21:00:00', tz='UTC')


def run_universe(case):
    q = load()
    assets = case['assets']
    FAR = {'y2300': pd.Timestamp('2300-01-01', tz='UTC'), 'y9999': pd.Timestamp('9999-12-31', tz='UTC'),
           'y1968': pd.Timestamp('1968-01-15 21:00', tz='UTC'), 'y1700': pd.Timestamp('1700-06-01', tz='UTC')}
    entries = [None if e is None else (FAR[e] if isinstance(e, str) else T0 + pd.Timedelta(minutes=e)) for e in case['entries']]
    # (an entry instant may carry a fraction of a second)
    us_ = case.get('entry_us') or []
    entries = [e if e is None or isinstance(case['entries'][i], str) or i >= len(us_) or not us_[i]
               else e + pd.Timedelta(microseconds=us_[i]) for i, e in enumerate(entries)]
    zones = case.get('zones') or []
    for i, z in enumerate(zones):
        if z and i < len(entries) and entries[i] is not None:
            entries[i] = entries[i].tz_convert(z)           # the same instant, written in another time zone
    if case.get('pydatetime'):
        # entry dates given as time-zone-aware datetime.datetime objects (they compare with pandas timestamps)
        entries = [e if e is None or not (1680 < e.year < 2260) else e.to_pydatetime() for e in entries]
    amap = dict(zip(assets, entries))
    dyn = q.DynamicUniverse(dict(amap))
    if case.get('signal_on_universe') is not None and case['queries']:
        # a signal was built over the universe at the first query instant and has since taken up later entrants (it keeps
        # a list of tracked assets of its own): the universe's answers are unaffected
        qm0 = case['queries'][0]
        t0_ = FAR[qm0] + pd.Timedelta(days=31) if isinstance(qm0, str) else T0 + pd.Timedelta(seconds=qm0)
        try:
            sg_ = q.MomentumSignal(t0_, dyn, [2])
            sg_.update_assets(t0_ + pd.Timedelta(days=case['signal_on_universe']))
        except Exception:                                         # noqa
            pass
    stat = q.StaticUniverse(list(assets))
    # a configured list may name a symbol more than once (two watch-lists joined): it is yielded as configured
    dup_list = list(assets) + list(assets[:case.get('dup', 0)])
    stat_dup = q.StaticUniverse(list(dup_list))
    exact = False
    # the universe-driven alpha model, plain and built with its optional data-handler argument (a handler that can
    # price only every other asset): the signals cover exactly the members, priced or not
    half = kit.StubDH({a: (10.0, 10.0) for a in assets[::2]})
    alphas = [q.SingleSignalAlphaModel(dyn, signal=0.5), q.SingleSignalAlphaModel(dyn, signal=0.5, data_handler=half)]
    for qm in case['queries']:
        if qm == 'y9999' and case.get('pydatetime'):
            continue            # (an instant past year 9999 cannot be compared with a datetime.datetime at all)
        t = FAR[qm] + pd.Timedelta(days=31) if isinstance(qm, str) else T0 + pd.Timedelta(seconds=qm)
        got = dyn.get_assets(t)
        want = [a for a in assets if amap[a] is not None and amap[a] <= t]
        if len(set(got)) != len(got):
            raise Violation('dynamic universe at %s lists duplicates: %s' % (t, got))
        if list(got) != want:
            raise Violation('dynamic universe at %s is %s; assets with entry <= t are %s (entries %s)' % (
                t, list(got), want, {a: str(e) for a, e in amap.items()}))
        if list(stat.get_assets(t)) != list(assets):
            raise Violation('static universe at %s is %s, configured %s' % (t, stat.get_assets(t), assets))
        if list(stat_dup.get_assets(t)) != dup_list:
            raise Violation('static universe at %s is %s, configured %s' % (t, stat_dup.get_assets(t), dup_list))
        for k, al in enumerate(alphas):
            w = al(t)
            if list(w) != want or any(v != 0.5 for v in w.values()):
                raise Violation('universe-driven alpha model%s at %s signals %s; members with entry <= t are %s' % (
                    ' (built with a data handler pricing %s)' % assets[::2] if k else '', t, w, want))
        if any(e is not None and e == t for e in entries):
            exact = True
    if case.get('edit_live'):
        # the entry-date mapping of the live universe is edited (an undated asset is given a date, a dated one a later date):
        # later queries follow the mapping as it is now
        a_ = assets[case['edit_live'] % len(assets)]
        new_e = T0 + pd.Timedelta(minutes=7) if amap[a_] is None else None
        dyn.asset_dates[a_] = new_e
        amap[a_] = new_e
        for t in (T0 + pd.Timedelta(minutes=6), T0 + pd.Timedelta(minutes=7), T0 + pd.Timedelta(days=3)):
            want = [a for a in dyn.asset_dates if amap[a] is not None and amap[a] <= t]
            if list(dyn.get_assets(t)) != want:
                raise Violation('after %s was given the entry %s on the live universe, its members at %s are %s; entries <= t give %s' % (
                    a_, new_e, t, list(dyn.get_assets(t)), want))
    cls = ['has_none'] if None in entries else []
    if case.get('edit_live'):
        cls.append('entry_mapping_edited_on_the_live_universe')
    if case.get('pydatetime'):
        cls.append('entries_as_datetime_objects')
    if case.get('signal_on_universe') is not None:
        cls.append('signal_tracking_the_universe_first')
    if case.get('dup'):
        cls.append('static_list_naming_a_symbol_twice')
    if any(zones):
        cls.append('entry_in_other_time_zone')
    if exact:
        cls.append('query_exactly_at_entry')
    return Result(cls, nontrivial=exact)


@st.composite
def universes(draw):
    assets = draw(st.lists(st.sampled_from(kit.ASSET_POOL + ['EQ:Brk.b', 'EQ:spy']), min_size=1, max_size=8, unique=True))     # incl. mixed-case symbols
    entries = [draw(st.one_of(st.none(), st.integers(-3000, 3000), st.sampled_from([0, 1, -1, 60, 1440]),
                              st.sampled_from(['y2300', 'y9999']))) for _ in assets]      # incl. 'never' sentinels centuries ahead
    qs = []
    for _ in range(draw(st.integers(1, 8))):
        base = draw(st.sampled_from([e for e in entries if e is not None and not isinstance(e, str)] or [0]))
        qs.append(base * 60 + draw(st.sampled_from([0, 0, 60, -60, 1, -1, 86400 * 400, -86400 * 400])))
    if draw(st.sampled_from([False, False, True])):
        qs.append(draw(st.sampled_from(['y2300', 'y2300', 'y9999', 'y1968', 'y1968', 'y1700'])))      # ... centuries ahead, or back
    zones = [draw(st.sampled_from([None, None, None, 'America/New_York', 'Asia/Tokyo', 'Europe/London'])) for _ in assets]
    return {'assets': assets, 'entries': entries, 'queries': qs, 'zones': zones, 'dup': draw(st.sampled_from([0, 0, 1, 2])),
            'pydatetime': draw(st.sampled_from([False, False, True])), 'edit_live': draw(st.sampled_from([0, 0, 1, 2, 5])),
            'entry_us': [draw(st.sampled_from([0, 0, 0, 250000, 1, 999999])) for _ in assets],
            'signal_on_universe': draw(st.sampled_from([None, None, 1, 400, 4000]))}


def run_optimiser(case):
    q = load()
    scale = case['scale']
    fixed = q.FixedWeightPortfolioOptimiser()
    okw = {}
    if case.get('dh_universe') is not None:
        # the optimisers are given their optional data handler - one that carries a universe of its own (every symbol on
        # disk, say): the weights cover exactly the assets they are given all the same
        okw['data_handler'] = q.BacktestDataHandler(q.StaticUniverse(['EQ:X%d' % k_ for k_ in range(case['dh_universe'])]), data_sources=[])
        fixed = q.FixedWeightPortfolioOptimiser(**okw)
    if scale == 'default':
        opt = q.EqualWeightPortfolioOptimiser(**okw)
        scale = 1.0
    else:
        opt = q.EqualWeightPortfolioOptimiser(scale=scale, **okw)
    cls = ['default_scale' if case['scale'] == 'default' else 'explicit_scale']
    nt = False
    prev = None
    # the same optimiser instances serve every weight dict of the case, as in a session
    for k_, w in enumerate([case['weights']] + list(case.get('more', []))):
        w = dict(w)
        if k_ and case.get('new_scale') is not None:
            opt.scale = scale = case['new_scale']        # the public scale is re-set on the live optimiser
            cls.append('scale_changed_on_live_optimiser')
        got = fixed(T0, initial_weights=dict(w))
        if got != w or list(got) != list(w):
            raise Violation('fixed-weight optimiser changed %s into %s' % (w, got))
        got = opt(T0, initial_weights=dict(w))
        if set(got) != set(w) or len(got) != len(w):
            raise Violation('equal-weight optimiser returned keys %s for %s%s' % (
                sorted(got), sorted(w), '' if prev is None else ' (previous call: %s)' % sorted(prev)))
        n = len(w)
        for a, v in got.items():
            if abs(v - scale / n) > 1e-12 * abs(scale):
                raise Violation('equal weight of %s is %r, scale/N = %r/%d = %r' % (a, v, scale, n, scale / n))
        if abs(math.fsum(got.values()) - scale) > 1e-12 * abs(scale) * n + (0 if scale else 1e-300):
            raise Violation('equal weights sum to %r, scale is %r' % (math.fsum(got.values()), scale))
        cls.append('n_%d' % min(n, 4))
        if prev is not None:
            cls.append('optimiser_reused')
            if len(prev) == n and set(prev) != set(w):
                cls.append('same_size_other_assets')
        nt = nt or n >= 2
        prev = w
    return Result(sorted(set(cls)), nontrivial=nt)


_wval = st.one_of(st.floats(-2, 2).map(lambda x: float('%.4g' % x)), st.sampled_from([0.0, 1.0, -1.0]))
_wint = st.sampled_from([1, 0, 2, -1, True])            # signals given as whole numbers / flags (e.g. signal=1)


@st.composite
def optimisers(draw):
    assets = draw(st.lists(st.sampled_from(kit.ASSET_POOL), min_size=1, max_size=8, unique=True))
    wv_ = _wint if draw(st.sampled_from([False, False, False, True])) else _wval
    w = {a: draw(wv_) for a in assets}
    more = []
    for _ in range(draw(st.sampled_from([0, 0, 1, 2, 3]))):
        if draw(st.booleans()):          # same size, other assets
            other = draw(st.lists(st.sampled_from(kit.ASSET_POOL), min_size=len(assets), max_size=len(assets), unique=True))
        else:
            other = draw(st.lists(st.sampled_from(kit.ASSET_POOL), min_size=1, max_size=8, unique=True))
        more.append({a: draw(_wval) for a in other})
    return {'weights': w, 'more': more, 'scale': draw(st.one_of(st.sampled_from(['default', 1.0, 2.0, 0.5, 0.0, 0]),
                                                                  st.floats(0.01, 10).map(lambda x: float('%.4g' % x)))),
            'new_scale': draw(st.sampled_from([None, None, 0.5, 3.0])), 'dh_universe': draw(st.sampled_from([None, None, 0, 1, 7]))}


def run_sess(case):
    clear_caches()
    cfg, mk = case['cfg'], case['market']
    with market.csv_dir(mk) as path:
        r = session.run_session(cfg, path, list(mk))
        res = _verify_session(case, r, 'first run')
        if 'session_lists_symbols_later_than_the_alpha_model' in case.get('labels', []):
            # the same backtest with the session trading every symbol from the start: the alpha model's assets get the
            # same weights at the same rebalances, so the fills are the same, fill for fill
            cfg2 = dict(cfg, universe={'kind': 'static', 'assets': sorted(cfg['alpha_universe']['dates'])})
            r_all = session.run_session(cfg2, path, list(mk))
            fa = [(f[0], f[1], f[2]) for f in r.fills]
            fb = [(f[0], f[1], f[2]) for f in r_all.fills]
            if fa != fb and not (r.error or r_all.error):
                k = next((i for i, (x, y) in enumerate(zip(fa, fb)) if x != y), min(len(fa), len(fb)))
                raise Violation('with the session listing symbols later than the alpha model weights them the fills are %s...; '
                                'with the session listing every symbol from the start they are %s... (fill %d; %d / %d fills)' % (
                                    fa[k:k + 2], fb[k:k + 2], k, len(fa), len(fb)))
        if case.get('rerun_shared'):
            # the same backtest again in this process, re-using the universe and alpha-model objects
            r2 = session.run_session(cfg, path, list(mk), shared={'universe': r.universe, 'alpha_inner': r.alpha_inner})
            _verify_session(case, r2, 'second run sharing the universe and alpha-model objects')
            res.classes.append('rerun_with_shared_objects')
    return res


def _verify_session(case, r, label):
    cfg = case['cfg']
    if r.error:
        raise Violation('%s: session failed with %s: %s at broker time %s' % ((label,) + tuple(r.error)))
    end = cal.ts6(cfg['end'])
    ev = cal.clock_events(cal.date3(cfg['start']), cal.date3(cfg['end']), False, False)
    if ev:
        end = max(end, ev[-1][0])          # a plain-date end still simulates its last day in full
    split = bool(cfg.get('alpha_universe'))      # the session trades a static universe of every symbol, the alpha
    ucfg = cfg['alpha_universe'] if split else cfg['universe']     # model follows the dated entries
    entry = {a: (None if v is None else cal.ts6(v)) for a, v in ucfg['dates'].items()}
    sig = cfg['alpha']['signal']
    rows = r.allocations
    inst = [row['Date'] for row in rows]
    first = {}
    for a, e in entry.items():
        ok = [t for t in inst if e is not None and e <= t]
        first[a] = ok[0] if ok else None
    for row in rows:
        t = row['Date']
        keys = set(row) - {'Date'}
        want = set(a for a, e in entry.items() if e is not None and e <= t)
        if split:
            if not (want <= keys <= set(entry)):
                raise Violation('%s: target allocation at %s covers %s; members of the alpha model\'s universe are %s' % (
                    label, t, sorted(keys), sorted(want)))
            for a in keys - want:
                if row[a] != 0.0:
                    raise Violation('%s: %s has target weight %r at %s but enters the alpha model\'s universe at %s' % (
                        label, a, row[a], t, entry[a]))
        elif keys != want:
            raise Violation('%s: target allocation at %s covers %s; universe members (entry <= t) are %s (entries %s)' % (
                label, t, sorted(keys), sorted(want), {a: str(e) for a, e in entry.items()}))
        for a in want:
            if row[a] != sig:
                raise Violation('%s: member %s has target weight %r at %s, the signal is %r' % (label, a, row[a], t, sig))
    if rows and r.equity_curve and getattr(r, 'bt', None) is not None:
        # the public allocation table carries a column for every asset that was given a weight at some rebalance - also one
        # that entered on the session's last day
        r.bt.target_allocations = r.allocations
        cols = set(r.bt.get_target_allocations().columns)
        want_cols = set(k for row in rows for k in row if k != 'Date')
        if cols != want_cols:
            raise Violation('%s: the allocation table has columns %s; the rebalances gave weights to %s (end %s, entries %s)' % (
                label, sorted(cols), sorted(want_cols), cfg['end'], {a: str(e) for a, e in entry.items()}))
    for f in r.fills:
        a = f[1]
        if first.get(a) is None or f[0] < first[a]:
            raise Violation('%s: fill in %s at %s; its first rebalance as a member is %s (entry %s)' % (
                label, a, f[0], first.get(a), entry.get(a)))
    for a, e in entry.items():
        if e is None or e > end:
            if a in r.holdings or any(f[1] == a for f in r.fills) or any(row.get(a, 0.0) != 0.0 if split else a in row
                                                                             for row in rows):
                raise Violation('%s: asset %s (entry %s) appears in the results' % (label, a, e))
    on = any(e is not None and e in inst for e in entry.values())
    after = any(e is not None and (e - pd.Timedelta(minutes=1)) in inst for e in entry.values())
    cls = list(case.get('labels', [])) + [cfg['rebalance'], 'long_only' if cfg['long_only'] else 'long_short']
    if on:
        cls.append('entry_exactly_on_instant')
    if after:
        cls.append('entry_minute_after_instant')
    return Result(cls, nontrivial=on and after, info={'fills': len(r.fills), 'rows': len(rows)})


@st.composite
def sessions(draw):
    sched = draw(sessgen.schedule())
    tods = ((14, 30, 0),) if sched['rebalance'] == 'buy_and_hold' else ((0, 0, 0), (14, 30, 0))
    d0, d1, start, end = draw(sessgen.window(min_days=8, max_days=60, start_tods=tods))
    names = draw(market.symbol_names(2, 5))
    mk = draw(market.dense_markets(names, d0, (d1 - d0).days, lead=9))
    cfg, lab = draw(sessgen.full_config(names, start, end, alpha_kinds=('single',), sched=sched, burn=False,
                                        entry_kinds=('on', 'after1m', 'on', 'after1m', 'before', 'mid', 'after_end', 'none', 'start')))
    if cfg['universe']['kind'] != 'dynamic':
        inst = sessgen.instants(sched, start, end)
        dates = {}
        for a in cfg['universe']['assets']:
            l, v = draw(sessgen.moment(start, end, inst, ('on', 'after1m', 'before', 'mid', 'after_end', 'none')))
            dates[a] = v
            lab = lab + ['entry_' + l]
        cfg['universe'] = {'kind': 'dynamic', 'dates': dates}
    inst_ = sessgen.instants(sched, start, end)
    if tuple(end[3:]) == (0, 0, 0) and inst_ and list(inst_[-1][:3]) == list(end[:3]) and draw(st.booleans()):
        # the end is a plain date and the last day has a rebalance: an asset enters exactly at that last instant
        a_ = draw(st.sampled_from(sorted(cfg['universe']['dates'])))
        cfg['universe']['dates'][a_] = list(inst_[-1])
        lab = lab + ['entry_at_the_last_instant_of_a_plain_date_end']
    rerun = draw(st.booleans())
    if not rerun and draw(st.sampled_from([False, False, True])):
        # the session itself trades a static universe of every symbol; only the alpha model follows the dated entries
        cfg['alpha_universe'] = cfg['universe']
        if draw(st.booleans()):
            cfg['universe'] = {'kind': 'static', 'assets': sorted(cfg['alpha_universe']['dates'])}
        else:
            # ... or lists each symbol a fortnight later than the alpha model starts to weight it
            later = {}
            for a_, v_ in cfg['alpha_universe']['dates'].items():
                if v_ is None:
                    later[a_] = None
                else:
                    t_ = cal.ts6(v_) + pd.Timedelta(days=14)
                    later[a_] = [t_.year, t_.month, t_.day, t_.hour, t_.minute, t_.second]
            cfg['universe'] = {'kind': 'dynamic', 'dates': later}
            lab = lab + ['session_lists_symbols_later_than_the_alpha_model']
        lab = lab + ['alpha_model_on_its_own_universe']
    return {'cfg': cfg, 'market': mk, 'labels': sorted(set(lab)), 'rerun_shared': rerun}



def run_static_pcm(case):
    """A static universe yields exactly its configured list - also after the construction model has used it while
    the portfolio holds assets outside the universe."""
    q = load()
    pool = kit.ASSET_POOL
    configured = [pool[i] for i in case['universe']]
    uni = q.StaticUniverse(list(configured))
    dh = kit.StubDH({a: (p, p) for a, p in zip(pool, case['prices'])})
    b, _ = kit.funded_broker(1e6, dh=dh, holdings=[(pool[i], n) for i, n in case['holdings']])
    sizer = (q.DollarWeightedCashBufferedOrderSizer(b, 'p', dh, cash_buffer_percentage=0.05) if case['long_only']
             else q.LongShortLeveragedOrderSizer(b, 'p', dh, gross_leverage=1.0))
    alpha = q.SingleSignalAlphaModel(uni, signal=1.0)
    equal = case.get('optimiser') == 'equal'
    optimiser = q.EqualWeightPortfolioOptimiser(data_handler=dh) if equal else q.FixedWeightPortfolioOptimiser(data_handler=dh)
    pcm = q.PortfolioConstructionModel(b, 'p', uni, sizer, optimiser, alpha_model=alpha, data_handler=dh)
    second = None
    if case.get('second_universe'):
        # a second strategy with a portfolio and a static universe of its own on the same account: each portfolio
        # receives positions in the assets of its own universe only
        conf2 = [pool[i] for i in case['second_universe']]
        b.subscribe_funds_to_account(1e6)
        b.create_portfolio('p2')
        b.subscribe_funds_to_portfolio('p2', 1e6)
        uni2 = q.StaticUniverse(list(conf2))
        sizer2 = (q.DollarWeightedCashBufferedOrderSizer(b, 'p2', dh, cash_buffer_percentage=0.05) if case['long_only']
                  else q.LongShortLeveragedOrderSizer(b, 'p2', dh, gross_leverage=1.0))
        second = (conf2, q.PortfolioConstructionModel(b, 'p2', uni2, sizer2, q.FixedWeightPortfolioOptimiser(data_handler=dh),
                                                      alpha_model=q.SingleSignalAlphaModel(uni2, signal=1.0), data_handler=dh))
    t = kit.T_CLOSE
    for k in range(case['rebalances']):
        b.update(t)
        st_ = {'target_allocations': []}
        held_now = [a for a in b.get_portfolio_as_dict('p')]
        orders = pcm(t, stats=st_)
        # the recorded weights: what the optimiser makes of the alpha model's signals (members only); every other
        # asset of the vector - e.g. one still held from outside the universe - gets zero
        row = {k_: v_ for k_, v_ in st_['target_allocations'][0].items() if k_ != 'Date'}
        want_w = {a: (1.0 / len(configured) if equal else 1.0) for a in configured}
        for a in set(row) | set(want_w) | set(held_now):
            if abs(row.get(a, float('nan')) - want_w.get(a, 0.0)) > 1e-12:
                raise Violation('rebalance %d: recorded weight of %s is %r, expected %r (universe %s, held %s, %s optimiser)' % (
                    k + 1, a, row.get(a), want_w.get(a, 0.0), configured, held_now, 'equal-weight' if equal else 'fixed-weight'))
        got = list(uni.get_assets(t))
        if got != configured:
            raise Violation('static universe yields %s after %d rebalance(s), configured %s (holdings %s)' % (
                got, k + 1, configured, [pool[i] for i, _ in case['holdings']]))
        w = alpha(t)
        if list(w) != configured:
            raise Violation('universe-driven alpha model weights %s, configured universe %s' % (list(w), configured))
        for o in orders:
            b.submit_order('p', o)
        if second:
            for o in second[1](t):
                b.submit_order('p2', o)
        t = t + pd.Timedelta(days=1)
        if t.weekday() > 4:
            t = t + pd.Timedelta(days=7 - t.weekday())
        b.update(t.normalize() + pd.Timedelta(hours=14, minutes=30))
        if second:
            for pid_, conf_ in (('p', configured), ('p2', second[0])):
                stray = [a for a in b.get_portfolio_as_dict(pid_) if a not in conf_]
                if stray:
                    raise Violation('after rebalance %d portfolio %s holds %s; the static universe of its strategy is %s '
                                    '(the other strategy on the account trades %s)' % (
                                        k + 1, pid_, stray, conf_, second[0] if pid_ == 'p' else configured))
    outside = any(pool[i] not in configured for i, _ in case['holdings'])
    return Result((['held_outside_universe'] if outside else []) + (['two_strategies_on_one_account'] if second else []), nontrivial=outside and case['rebalances'] >= 2)


@st.composite
def static_pcm(draw):
    n = len(kit.ASSET_POOL)
    return {'universe': draw(st.lists(st.integers(0, n - 1), min_size=1, max_size=4, unique=True)),
            'holdings': [[i, draw(st.sampled_from([10, 100, 1000]))] for i in
                         draw(st.lists(st.integers(0, n - 1), min_size=0, max_size=3, unique=True))],
            'prices': [draw(st.floats(1, 300).map(lambda x: float('%.5g' % x))) for _ in range(n)],
            'long_only': draw(st.booleans()), 'rebalances': draw(st.integers(1, 3)),
            'optimiser': draw(st.sampled_from(['fixed', 'equal'])),
            'second_universe': draw(st.one_of(st.none(), st.lists(st.integers(0, n - 1), min_size=1, max_size=3, unique=True)))}


PARTS = [
    Part('universes', 'hyp', run_universe, strategy=universes(), quick=5000, thorough=320000, quick_shards=4),
    Part('optimisers', 'hyp', run_optimiser, strategy=optimisers(), quick=3000, thorough=160000, quick_shards=4),
    Part('sessions', 'hyp', run_sess, strategy=sessions(), quick=800, thorough=48000, quick_shards=8),
    Part('static', 'hyp', run_static_pcm, strategy=static_pcm(), quick=600, thorough=48000, quick_shards=4),
]
