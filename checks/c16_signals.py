"""C16 - signals equal their definitions over the trailing window of supplied closes."""
import datetime as D
import math
import warnings

import pandas as pd
from hypothesis import strategies as st

from vlib import cal, gen, kit, market, sessgen, session
from vlib.runner import Part, Result, Violation
from vlib.sut import clear_caches, load
from checks.c06_pit_data import lookup, observations

PROPERTY = 'C16'
RULE = ('(streams) momentum, SMA and volatility signals built over 1-5 assets with confusable names (A, AB, A1, A_1, '
        'A_1_2, Z9, SPY, SP) and 1-4 lookbacks from 1..30 (incl. pairs like 2 and 12), fed positive price streams '
        '(prices down to 0.01, repeats) in random interleaving through Signal.append and through '
        'SignalsCollection.update with a stub handler, static and dynamic universes (optionally the volatility signal '
        'on a static universe while momentum/SMA follow the dynamic one); one step in ten offers a non-positive price '
        '(refused with ValueError, not part of the stream) and, with static universes, the collection is sometimes '
        'driven at a repeated or an earlier timestamp (each call still supplies one observation); every (signal, asset, lookback) '
        'is queried after every step. (sessions) full backtests with all three signals in one collection, static and '
        'dynamic universes (entry before the start / on a close / mid-range / after the end), dense and gappy markets, '
        'every rebalance kind, with and without burn-in, a recording alpha model evaluating every signal at each '
        'rebalance. Oracle from the harness\'s own price lists: momentum = last/first - 1 over the last N+1 prices, SMA '
        '= mean of the last N, volatility = population standard deviation of the last N simple returns x sqrt(252), '
        'shorter window while warming up, 0 when no return exists; in sessions each buffer must hold exactly the '
        'last maxlen point-in-time 21:00 prices of the business days from max(start, entry) on, warmup == number of '
        'business days, and the values seen at a rebalance equal the oracle over the closes up to that instant. '
        '1e-9 relative. Non-trivial = stream longer than the lookback (window slides), >= 2 lookbacks and >= 2 '
        'assets; sessions: >= 1 late entrant.'
        " Round-10 reach: a quarter of the sessions build the signals collection on a data handler of its own (the same files with the opposite price adjustment); buffers and values are compared with that feed's closes."
        " Round-11 reach: stream op `refused_update` (one asset carries a non-positive print, the collection update raises part-way, the caller carries on: every window holds its closes with or without that day's and later updates deliver their own prices); sessions whose collection was fed the 1-5 business days before the start directly."
        " Round-12 reach: entry instants of dynamic-universe streams written in Tokyo / New York time."
        " Round-13 reach: a second momentum signal object configured exactly like the first (`momentum_b`).")
ASSUMPTIONS = [
    'positive prices; lookbacks 1..30; up to 5 assets; streams up to 60 steps; sessions up to 60 days',
    'in sessions the market has data before every entry (an unpriced asset is C06/C07\'s subject)',
    'float tolerance 1e-9 relative',
]
NAMES = ['EQ:A', 'EQ:AB', 'EQ:A1', 'EQ:A_1', 'EQ:A_1_2', 'EQ:Z9', 'EQ:SPY', 'EQ:SP']
T0 = pd.Timestamp('2021-03-01 21:00:00', tz='UTC')


def o_mom(h, n):
    w = h[-(n + 1):]
    return w[-1] / w[0] - 1.0 if len(w) >= 2 else 0.0


def o_sma(h, n):
    w = h[-n:]
    return math.fsum(w) / len(w)


def o_vol(h, n):
    w = h[-(n + 1):]
    rets = [w[i] / w[i - 1] - 1.0 for i in range(1, len(w))]
    if not rets:
        return 0.0
    m = math.fsum(rets) / len(rets)
    return math.sqrt(math.fsum((x - m) ** 2 for x in rets) / len(rets)) * math.sqrt(252)


ORACLE = {'momentum': o_mom, 'momentum_b': o_mom, 'sma': o_sma, 'vol': o_vol}


def close_enough(a, b, scale=0.0):
    return abs(a - b) <= 1e-9 * max(abs(a), abs(b), scale) + 1e-12


def sig_scale(name, h, lb):
    """Natural magnitude of a signal's intermediate values: momentum is (product of gross returns) - 1 and the
    code re-adds 1 to each simple return, so it carries float noise relative to 1 + momentum, not to momentum."""
    if name in ('momentum', 'momentum_b'):
        return 1.0
    if name == 'vol':
        w = h[-(lb + 1):]
        return math.sqrt(252) * max([abs(w[i] / w[i - 1] - 1.0) for i in range(1, len(w))] or [0.0])
    return 0.0


def check_all(sigs, hist, lbs, where):
    n = 0
    for name, s in sigs.items():
        for a, h in hist.items():
            if not h:
                continue
            for lb in lbs[name]:
                with warnings.catch_warnings():
                    warnings.simplefilter('ignore')
                    got = float(s(a, lb))
                want = ORACLE[name](h, lb)
                n += 1
                if not close_enough(got, want, sig_scale(name, h, lb)):
                    raise Violation('%s: %s(%s, %d) = %r, definition over the last prices %s gives %r' % (
                        where, name, a, lb, got, h[-(lb + 2):], want))
    return n


class Excluded(Exception):
    pass


def _one_pass(q, case, assets, lbs, dyn, split, uni_of, label):
    sigs = {'momentum': q.MomentumSignal(T0, uni_of['momentum'], list(lbs['momentum'])),
            'sma': q.SMASignal(T0, uni_of['sma'], list(lbs['sma'])),
            'vol': q.VolatilitySignal(T0, uni_of['vol'], list(lbs['vol']))}
    dh = kit.StubDH()
    coll = q.SignalsCollection(sigs, dh)
    hist = {name: {a: [] for a in assets} for name in sigs}
    nq = 0
    day = 0
    updates = 0

    def members_of(name, t):
        if name == 'vol' and split:
            return list(assets)
        return [a for a in assets if (not dyn) or (dyn[assets.index(a)] is not None and
                                                   T0 + pd.Timedelta(days=dyn[assets.index(a)]) <= t)]
    for i, op in enumerate(case['ops']):
        if op[0] == 'refused':
            # a non-positive price is not part of the stream: the documented ValueError, and nothing may change
            a = assets[op[1] % len(assets)]
            for name, s in sigs.items():
                try:
                    s.append(a, op[2])
                except ValueError:
                    continue
                raise Excluded('non_positive_price_accepted')
        elif op[0] == 'refused_update':
            # a collection update on a day on which one asset carries a bad print (a non-positive quote): the update
            # raises the documented ValueError part-way and the caller carries on.  Which windows already received
            # that day's price is not stated - each must hold its closes so far with or without it, never anything
            # else - and every later update delivers its own prices again
            bad = assets[op[2] % len(assets)]
            for j, a in enumerate(assets):
                dh.set(a, op[1][j % len(op[1])])
            dh.set(bad, op[3])
            t = T0 + pd.Timedelta(days=day)
            day += 1
            try:
                coll.update(t)
            except ValueError:
                pass
            else:
                raise Excluded('non_positive_price_accepted')
            if coll.warmup not in (updates, updates + 1):
                raise Violation('warmup counter %r after %d updates and a refused one' % (coll.warmup, updates))
            updates = coll.warmup

            def fits(name_, s_, a_, h_):
                try:
                    check_all({name_: s_}, {a_: h_}, lbs, '')
                except Violation:
                    return False
                return True
            for name, s in sigs.items():
                for a in assets:
                    h0 = hist[name][a]
                    h1 = h0 + [dh.q[a][0]]
                    ok0 = fits(name, s, a, h0) if h0 else None
                    ok1 = a != bad and fits(name, s, a, h1)
                    if not h0:
                        # no close so far: an empty window and a one-price window answer alike, so look at the window
                        bump_ = 0 if name == 'sma' else 1
                        filled = any(len(s.buffers.prices.get('%s_%s' % (a, lb_ + bump_), [])) > 0 for lb_ in lbs[name])
                        if filled and not ok1:
                            raise Violation('%sstep %d: after an update refused for the bad print of %s, the empty %s window of '
                                            '%s holds something other than that day\'s %r' % (label, i, bad, name, a, dh.q[a][0]))
                        ok1 = filled
                    if ok0 and ok1:
                        raise Excluded('ambiguous_after_refused_update')
                    if ok1:
                        hist[name][a] = h1
                    elif ok0 is False:
                        raise Violation('%sstep %d: after an update refused for the bad print of %s, the %s window of %s fits '
                                        'neither its closes so far %s nor those plus that day\'s %r' % (
                                            label, i, bad, name, a, h0[-4:], dh.q[a][0]))
            dh.set(bad, abs(op[3]) + 1.0)
        elif op[0] == 'append':
            a = assets[op[1] % len(assets)]
            for name, s in sigs.items():
                s.append(a, op[2])
                hist[name][a].append(op[2])
        else:
            # one collection update: every current member receives its quoted price
            for j, a in enumerate(assets):
                dh.set(a, op[1][j % len(op[1])])
            t = T0 + pd.Timedelta(days=day)
            # (static universes only) the collection may be driven at a repeated or an earlier timestamp: every call
            # still supplies one observation
            day = max(0, day + (op[2] if len(op) > 2 and not dyn else 1))
            coll.update(t)
            updates += 1
            if coll.warmup != updates:
                raise Violation('warmup counter %r after %d updates' % (coll.warmup, updates))
            for name, s in sigs.items():
                members = members_of(name, t)
                for a in members:
                    hist[name][a].append(dh.q[a][0])
                if sorted(s.assets) != sorted(set(members) | set(uni_of[name].get_assets(T0))):
                    raise Violation('step %d: %s signal tracks %s, universe members so far %s' % (
                        i, name, sorted(s.assets), sorted(members)))
        for name, s in sigs.items():
            nq += check_all({name: s}, hist[name], lbs, label + 'step %d %s' % (i, op[0]))
    return nq, hist


def run_stream(case):
    q = load()
    assets = case['assets']
    lbs = case['lookbacks']
    dyn = case.get('entries')
    split = bool(dyn) and case.get('split', False)
    if dyn:
        # (entry instants may be written in another time zone: the same instants)
        etz = case.get('entry_tz')
        uni = q.DynamicUniverse({a: (None if e is None else (
            (T0 + pd.Timedelta(days=e)).tz_convert(etz) if etz else T0 + pd.Timedelta(days=e))) for a, e in zip(assets, dyn)})
    else:
        uni = q.StaticUniverse(list(assets))
    # with `split` the volatility signal follows a static universe of all assets while momentum and SMA follow the
    # dynamic one: signals in one collection must not feed each other's windows
    uni_of = {'momentum': uni, 'sma': uni, 'vol': q.StaticUniverse(list(assets)) if split else uni}
    nq = 0
    passes = 2 if case.get('second_pass') else 1
    for pass_no in range(passes):
        # a second pass builds fresh signals over the very same universe objects and replays the stream from T0,
        # as a second backtest in one process does
        try:
            n_, hist = _one_pass(q, case, assets, lbs, dyn, split, uni_of, 'pass %d ' % (pass_no + 1) if passes > 1 else '')
        except Excluded as e:
            return Result([str(e)], excluded=str(e))
        nq += n_

    allb = sorted(set(x for v in lbs.values() for x in v))
    slides = any(len(h) > min(allb) + 1 for hh in hist.values() for h in hh.values())
    cls = ['dynamic' if dyn else 'static', 'assets_%d' % len(assets)]
    if split:
        cls.append('signals_with_different_universes')
    if dyn and case.get('entry_tz'):
        cls.append('entry_dates_written_in_another_zone')
    if passes > 1:
        cls.append('second_pass_over_shared_universe')
    if any(len(v) == 1 for v in lbs.values()):
        cls.append('single_lookback')
    if any(len(h) == 1 for hh in hist.values() for h in hh.values()):
        cls.append('one_price_only')
    if any(len(h) == 2 for hh in hist.values() for h in hh.values()):
        cls.append('two_prices_only')
    if any(p <= 1.0 for hh in hist.values() for h in hh.values() for p in h):
        cls.append('price_le_1')
    if any(op[0] == 'update' for op in case['ops']):
        cls.append('via_collection')
    if any(op[0] == 'refused_update' for op in case['ops']):
        cls.append('collection_update_refused_part_way')
    if any(op[0] == 'refused' for op in case['ops']):
        cls.append('refused_non_positive_price_in_between')
    if not dyn and any(op[0] == 'update' and len(op) > 2 and op[2] < 1 for op in case['ops']):
        cls.append('collection_driven_at_repeated_or_earlier_time')
    nt = slides and len(assets) >= 2 and any(len(v) >= 2 for v in lbs.values())
    return Result(cls, nontrivial=nt, info={'queries': nq})


lookbacks_st = st.lists(st.one_of(st.integers(1, 6), st.integers(1, 30), st.sampled_from([1, 2, 12, 21])),
                        min_size=1, max_size=4, unique=True)
sprice = st.one_of(st.floats(1, 500).map(lambda x: float('%.6g' % x)), st.floats(0.01, 1.0).map(lambda x: float('%.3g' % x)),
                   st.sampled_from([0.01, 1.0, 7.0, 7.0, 0.0022, 0.004, 0.00049]))


@st.composite
def streams(draw):
    assets = draw(st.lists(st.sampled_from(NAMES), min_size=1, max_size=5, unique=True))
    lbs = {k: draw(lookbacks_st) for k in ('momentum', 'sma', 'vol')}
    if draw(st.booleans()):
        same = draw(lookbacks_st)
        lbs = {k: list(same) for k in lbs}
    case = {'assets': assets, 'lookbacks': lbs}
    mode = draw(st.sampled_from(['append', 'update', 'update_dynamic', 'mixed']))
    if mode == 'update_dynamic':
        case['entries'] = [draw(st.sampled_from([0, 0, 1, 3, 8, None])) for _ in assets]
        case['split'] = draw(st.booleans())
        case['second_pass'] = draw(st.booleans())
        case['entry_tz'] = draw(st.sampled_from([None, None, 'Asia/Tokyo', 'America/New_York']))
    n = draw(st.one_of(st.integers(1, 12), st.integers(1, 60)))
    ops = []
    for _ in range(n):
        if mode in ('append', 'mixed') and draw(st.sampled_from([False] * 9 + [True])):
            ops.append(['refused', draw(st.integers(0, len(assets) - 1)), draw(st.sampled_from([0.0, -1.0, -0.01, -250.0]))])
        elif mode in ('update', 'mixed') and draw(st.sampled_from([False] * 11 + [True])):
            ops.append(['refused_update', [draw(sprice) for _ in range(draw(st.integers(1, len(assets))))],
                        draw(st.integers(0, len(assets) - 1)), draw(st.sampled_from([0.0, -1.0, -0.01]))])
        elif mode == 'append' or (mode == 'mixed' and draw(st.booleans())):
            ops.append(['append', draw(st.integers(0, len(assets) - 1)), draw(sprice)])
        else:
            ops.append(['update', [draw(sprice) for _ in range(draw(st.integers(1, len(assets))))],
                        draw(st.sampled_from([1, 1, 1, 1, 0, -2]))])
    case['ops'] = ops
    return case


# ---------------------------------------------------------------------------------------------------------------
# sessions

def run_sess(case):
    clear_caches()
    cfg = case['cfg']
    mk = case['market']
    with market.csv_dir(mk) as path:
        r = session.run_session(cfg, path, list(mk), probe_signals=True)
        res = _verify_sess(case, r, '')
        if case.get('rerun_shared'):
            clear_caches()
            r2 = session.run_session(cfg, path, list(mk), probe_signals=True, shared={'universe': r.universe})
            _verify_sess(case, r2, 'second run sharing the universe object: ')
            res.classes.append('rerun_with_shared_universe')
    return res


def _verify_sess(case, r, label):
    cfg = case['cfg']
    mk = case['market']
    if r.error:
        raise Violation('%ssession failed with %s: %s at broker time %s' % ((label,) + tuple(r.error)))
    d0, d1 = cal.date3(cfg['start']), cal.date3(cfg['end'])
    start = cal.ts6(cfg['start'])
    days = cal.bdays(d0, d1)
    adjust = cfg.get('adjust', True)
    if cfg.get('signals_feed') == 'other_adjustment':
        adjust = not adjust                       # the closes the signals are fed come from their own handler
    obs = {'EQ:' + s: observations(rows, adjust) for s, rows in mk.items()}
    ucfg = cfg.get('signal_universe') or cfg['universe']      # the universe the signals watch
    entry = {}
    if ucfg['kind'] == 'static':
        for a in ucfg['assets']:
            entry[a] = None
    else:
        for a, v in ucfg['dates'].items():
            if v is not None:
                entry[a] = cal.ts6(v)
    # per asset: the 21:00 point-in-time price of every business day on which it was a member at that close
    series = {}
    pre_days = []
    if cfg.get('prewarm_days'):
        d_ = d0 - D.timedelta(days=1)
        while len(pre_days) < cfg['prewarm_days']:
            if d_.weekday() < 5:
                pre_days.insert(0, d_)
            d_ -= D.timedelta(days=1)
    for a, e in entry.items():
        pts = [(cal.ts(d, 21, 0), lookup(obs[a], cal.ts(d, 21, 0))[0]) for d in pre_days]      # (static universes only)
        for d in days:
            t = cal.ts(d, 21, 0)
            if e is None or e <= t or e <= start:
                pts.append((t, lookup(obs[a], t)[0]))
        series[a] = pts
    if r.signals.warmup != len(days) + len(pre_days):
        raise Violation(label + 'signals warmup %r, the session had %d business days%s' % (
            r.signals.warmup, len(days), ' after %d fed directly' % len(pre_days) if pre_days else ''))
    late = False
    for name, s in r.sig.items():
        want_assets = sorted(a for a, p in series.items() if p or entry[a] is None or entry[a] <= start)
        if sorted(s.assets) != want_assets:
            raise Violation(label + '%s signal tracks %s at the end; universe members were %s' % (name, sorted(s.assets), want_assets))
        bump = 0 if name == 'sma' else 1
        for a in s.assets:
            full = [p for _, p in series[a]]
            if any(p != p for p in full):
                continue            # a watched asset without quotes at first: what it is fed on those days is not stated
            if len(full) < len(days) + len(pre_days):
                late = True
            for lb in cfg['signals'][name]:
                key = '%s_%s' % (a, lb + bump)
                buf = list(s.buffers.prices.get(key, [])) if full or key in s.buffers.prices else []
                want = full[-(lb + bump):]
                if len(buf) != len(want) or any(not close_enough(x, y) for x, y in zip(buf, want)):
                    raise Violation(label + '%s buffer of %s (lookback %d) holds %s; the last %d closes since entry are %s' % (
                        name, a, lb, buf[-4:], lb + bump, want[-4:]))
    # values seen by the alpha model at each rebalance
    nprobe = 0
    for dt, vals in r.alpha.probes:
        for (name, a, lb), got in vals.items():
            h = [p for t, p in series.get(a, []) if t <= dt]
            if not h or any(p != p for p in h):
                continue
            if got == 'no_buffer':
                raise Violation('at %s the %s signal has no buffer for member %s' % (dt, name, a))
            want = ORACLE[name](h, lb)
            nprobe += 1
            if not close_enough(got, want, sig_scale(name, h, lb)):
                raise Violation(label + 'at rebalance %s: %s(%s, %d) = %r, definition over the closes so far %s gives %r' % (
                    dt, name, a, lb, got, h[-(lb + 2):], want))
    cls = list(case.get('labels', [])) + [cfg['rebalance'], ucfg['kind'], cfg['alpha']['kind']]
    if late:
        cls.append('late_entrant')
    return Result(cls, nontrivial=late and nprobe > 0, info={'probes': nprobe})


@st.composite
def sessions(draw):
    d0, d1, start, end = draw(sessgen.window(min_days=4, max_days=60))
    names = draw(market.symbol_names(1, 4))
    n = (d1 - d0).days
    seed = draw(st.integers(0, 2 ** 31))
    gappy = draw(st.booleans())
    mk = {s: market.build_rows(seed + 17 * i, d0 - D.timedelta(days=9), n + 11, gappy=gappy) or
          market.build_rows(seed + 17 * i, d0 - D.timedelta(days=9), n + 11) for i, s in enumerate(names)}
    # the first bar must exist before the session starts so that every close is priced
    for s in names:
        first = market.first_date(mk[s])
        if first >= d0:
            mk[s] = market.build_rows(seed, d0 - D.timedelta(days=9), n + 11)
    cfg, lab = draw(sessgen.full_config(names, start, end, alpha_kinds=('fixed', 'fixed', 'topn', 'sma', 'invvol'),
                                        entry_kinds=('before', 'start', 'on', 'on', 'mid', 'mid', 'after1m', 'after_end')))
    lb = lambda: draw(st.lists(st.integers(1, 8), min_size=1, max_size=3, unique=True))     # noqa
    sig = {'momentum': lb(), 'sma': lb(), 'vol': lb()}
    a = cfg['alpha']
    if a['kind'] == 'topn' and a['lookback'] not in sig['momentum']:
        sig['momentum'].append(a['lookback'])
    if a['kind'] == 'sma':
        sig['sma'] = sorted(set(sig['sma']) | {a['fast'], a['slow']})
    if a['kind'] == 'invvol' and a['lookback'] not in sig['vol']:
        sig['vol'].append(a['lookback'])
    if draw(st.sampled_from([False, False, True])):
        sig['momentum_b'] = list(sig['momentum'])        # a second momentum signal object with the very same configuration
        lab = lab + ['two_signals_configured_alike']
    cfg['signals'] = sig
    if a['kind'] == 'fixed' and draw(st.sampled_from([False, False, True])) and sessgen.add_watched(
            draw, cfg, mk, names, d0, n, seed):
        lab = lab + ['watched_symbol_without_quotes_at_first']
    elif a['kind'] == 'fixed' and cfg['universe']['kind'] == 'dynamic' and draw(st.booleans()):
        # the signals watch every symbol from the start, whatever the traded universe contains at the time
        cfg['signal_universe'] = {'kind': 'static', 'assets': ['EQ:' + s for s in names]}
        lab = lab + ['signals_watch_a_wider_universe']
    if cfg['universe']['kind'] == 'static' and draw(st.sampled_from([False, False, True])):
        # the signals are declared with a start of their own, a week into the session (or at the burn-in date)
        ss_ = cal.ts6(cfg['burn_in']) if cfg.get('burn_in') else cal.ts6(start) + pd.Timedelta(days=7)
        cfg['signal_start'] = [ss_.year, ss_.month, ss_.day, ss_.hour, ss_.minute, ss_.second]
        lab = lab + ['signals_declared_with_a_later_start']
    if draw(st.sampled_from([False, False, False, True])):
        cfg['extra_clock_events'] = True
        lab = lab + ['clock_with_pre_and_post_market_events']
    if (cfg.get('signal_universe') or cfg['universe'])['kind'] == 'static' and draw(st.sampled_from([False, False, True])):
        cfg['prewarm_days'] = draw(st.integers(1, 5))
        lab = lab + ['collection_fed_the_days_before_the_session']
    if draw(st.sampled_from([False, False, False, True])):
        cfg['signals_feed'] = 'other_adjustment'
        lab = lab + ['signals_on_a_data_handler_of_their_own']
    return {'cfg': cfg, 'market': mk, 'labels': lab + (['gappy_market'] if gappy else ['dense_market']),
            'rerun_shared': draw(st.booleans())}


PARTS = [
    Part('streams', 'hyp', run_stream, strategy=streams(), quick=2000, thorough=240000, quick_shards=8),
    Part('sessions', 'hyp', run_sess, strategy=sessions(), quick=500, thorough=24000, quick_shards=8),
]
