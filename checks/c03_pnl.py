"""C03 - position P&L reconciles exactly to the cash flows of its fills."""
import hashlib
import itertools
import os
from fractions import Fraction as F

import pandas as pd
from hypothesis import strategies as st

from vlib import gen
from vlib.runner import Part, Result, Violation
from vlib.sut import load

PROPERTY = 'C03'
RULE = ('(paths) every sign pattern x magnitude template of up to k fills (k<=4 quick with magnitudes {1,2,3,5,10}; '
        'k<=6 thorough with {1,2,5}, 40 value draws each), values (prices log-U(0.01,1e4), commissions 0|U(0,50), '
        'marks) derived from VERIF_SEED and the path index, driven through a bare Position, the PositionHandler '
        '(episode restarts when flat) and a Portfolio; (random) Hypothesis-generated ladders of up to 80 fills '
        'over 1-3 assets with re-marks interleaved (with and without the optional timestamp), quantities biased to '
        'close/flip/re-open, a quarter of the ladders with non-integer quantities >= 1 unit, a quarter with rebates '
        '(negative commissions). Oracle in exact '
        'rationals over the fills of the current episode: total == realised + unrealised == market value - '
        'sum(price*qty) - sum(commission); unrealised == (mark - avg cost incl. open-side commission) * net; '
        'net == sum qty; a re-mark leaves realised/net/buy/sell quantities identical and moves unrealised by '
        'dprice*net; portfolio totals == sums over positions. Tolerance 1e-9 x (sum|p*q| + sum c + |mv|). '
        'Non-trivial = both sides traded, non-zero open-side commission and net != 0 at a check; distinct = '
        'distinct (sign pattern, trajectory, values).'
        " Round-5 reach: (position driver) fills stamped before the position's time are attempted in between and must be refused, after which the position must reconcile to the ledger with or without the refused fill (never a mixture); the fill that opens a position may be 0.25-0.75 units."
        " Round-10 reach: part `broker`: orders filled and positions re-marked by SimulatedBroker.update itself (open and closed hours, orders waiting over closed hours, reports read between submission and update, 1-2 portfolios, bid/ask spreads, percentage fees); the identities are checked on every row of get_portfolio_as_dict after every update (non-trivial = a re-marked position traded on both sides)."
        " Round-11 reach: micro-priced assets (8e-6, 0.0004) in the broker part."
        " Round-12 reach: a market-neutral first step (long n / short n at one price: market value exactly zero) in a quarter of the broker cases.")
ASSUMPTIONS = [
    'quantities are whole numbers (as Transaction documents) or, in a quarter of the random ladders, non-integers of at '
    'least one unit; sub-unit fills other than the one opening a position are outside the domain (the code documents '
    'a later fill whose floor is zero as "no quantity" and ignores it), positive prices, non-negative commissions',
    'floating point: identities asserted to 1e-9 of the gross traded value',
    'paths up to 6 fills enumerated, longer ladders sampled',
]
T0 = pd.Timestamp('2020-01-06 15:00:00', tz='UTC')


class Episode(object):
    def __init__(self):
        self.fills = []

    def add(self, qty, price, comm):
        self.fills.append((F(qty), F(price), F(comm)))

    @property
    def net(self):
        return sum(q for q, _, _ in self.fills)

    def expect(self, mark):
        mark = F(mark)
        net = self.net
        spq = sum(p * q for q, p, c in self.fills)
        sc = sum(c for q, p, c in self.fills)
        mv = mark * net
        scale = sum(abs(p * q) for q, p, c in self.fills) + sum(abs(c) for q, p, c in self.fills) + abs(mv)
        if net > 0:
            side = [(q, p, c) for q, p, c in self.fills if q > 0]
            avg = (sum(p * q for q, p, c in side) + sum(c for q, p, c in side)) / sum(q for q, p, c in side)
        elif net < 0:
            side = [(-q, p, c) for q, p, c in self.fills if q < 0]
            avg = (sum(p * q for q, p, c in side) - sum(c for q, p, c in side)) / sum(q for q, p, c in side)
        else:
            avg = F(0)
        return {'net': net, 'mv': mv, 'total': mv - spq - sc, 'unrealised': (mark - avg) * net, 'scale': scale}


def _check(pos, ep, mark, where):
    e = ep.expect(mark)
    tol = 1e-9 * float(e['scale']) + 1e-13
    tot, rea, unr = pos.total_pnl, pos.realised_pnl, pos.unrealised_pnl
    if pos.net_quantity != e['net']:
        raise Violation('%s: net quantity %r, fills sum to %r' % (where, pos.net_quantity, e['net']))
    if abs(tot - (rea + unr)) > tol:
        raise Violation('%s: total %r != realised %r + unrealised %r' % (where, tot, rea, unr))
    if abs(tot - float(e['total'])) > tol:
        raise Violation('%s: total P&L %r != market value - cash flows of the fills %r (fills %s mark %r)' % (
            where, tot, float(e['total']), [(q, float(p), float(c)) for q, p, c in ep.fills], float(mark)))
    if abs(unr - float(e['unrealised'])) > tol:
        raise Violation('%s: unrealised %r != (mark - avg cost) * net = %r (fills %s mark %r)' % (
            where, unr, float(e['unrealised']), [(q, float(p), float(c)) for q, p, c in ep.fills], float(mark)))
    if abs(pos.market_value - float(e['mv'])) > tol:
        raise Violation('%s: market value %r != mark*net %r' % (where, pos.market_value, float(e['mv'])))
    return e


def _remark(pos, ep, old_mark, new_mark, t, where, via=None):
    before = (pos.realised_pnl, pos.net_quantity, pos.buy_quantity, pos.sell_quantity)
    u0 = pos.unrealised_pnl
    if via is not None:
        via.update_market_value_of_asset(pos.asset, new_mark, t)      # the mark arrives through the portfolio
    elif t is None:
        pos.update_current_price(new_mark)          # the timestamp is optional
    else:
        pos.update_current_price(new_mark, t)
    after = (pos.realised_pnl, pos.net_quantity, pos.buy_quantity, pos.sell_quantity)
    if before != after:
        raise Violation('%s: re-mark %r -> %r changed (realised, net, bought, sold) %r -> %r' % (
            where, old_mark, new_mark, before, after))
    e = _check(pos, ep, new_mark, where + ' after re-mark')
    d = float((F(new_mark) - F(old_mark)) * e['net'])
    if abs((pos.unrealised_pnl - u0) - d) > 1e-9 * float(e['scale'] + abs(F(old_mark) * e['net'])) + 1e-13:
        raise Violation('%s: re-mark moved unrealised by %r, expected dprice*net %r' % (
            where, pos.unrealised_pnl - u0, d))


def run_case(case):
    q = load()
    driver = case['driver']
    fills = case['fills']           # [asset_index, qty, price, commission]
    marks = {}
    for after, a, price in case.get('marks', []):
        marks.setdefault(after, []).append((a, price))
    names = ['EQ:A', 'EQ:AB', 'EQ:Brk.b']
    nt = False
    sides = set()
    cls = set()
    eps = {}
    last = {}
    pos = None
    if driver == 'position':
        pass
    elif driver == 'handler':
        ph = q.PositionHandler()
    else:
        port = q.Portfolio(T0, portfolio_id='p')
        port.subscribe_funds(T0, 1e9)
    for i, (ai, qty, price, comm) in enumerate(fills):
        a = names[ai if driver != 'position' else 0]
        # (with `same_instants` every fourth fill carries the timestamp of the fill - and marks - before it)
        t = T0 + pd.Timedelta(minutes=i - (1 if case.get('same_instants') and i % 4 == 2 else 0))
        oid = ('o%d' % (i // 3)) if case.get('repeat_order_ids') else 'o%d' % i      # partial fills share an order id
        # (the commission is the documented sixth argument: passed by keyword or by position)
        txn = q.Transaction(a, qty, t, price, oid, commission=comm) if i % 3 else q.Transaction(a, qty, t, price, oid, comm)
        ep = eps.setdefault(a, Episode())
        if qty == 0:
            # an order sized down to zero shares: nothing is booked, an open position stays as it is
            if driver == 'position':
                if pos is not None:
                    pos.transact(txn)
            elif driver == 'handler':
                if a in ph.positions:
                    ph.transact_position(txn)
            elif a in port.pos_handler.positions:
                port.pos_handler.transact_position(txn)
            cur0 = pos if driver == 'position' else (ph.positions.get(a) if driver == 'handler' else port.pos_handler.positions.get(a))
            if ep.fills and ep.net != 0:
                if cur0 is None:
                    raise Violation('fill %d: a zero-quantity fill removed the open position in %s' % (i, a))
                _check(cur0, ep, last[a], 'after zero-quantity fill %d (%s)' % (i, driver))
            cls.add('zero_quantity_fill')
            continue
        if driver == 'position':
            if pos is None:
                pos = q.Position.open_from_transaction(txn)
            else:
                pos.transact(txn)
            cur = pos
        elif driver == 'handler':
            ph.transact_position(txn)
            cur = ph.positions.get(a)
        else:
            port.transact_asset(txn)
            cur = port.pos_handler.positions.get(a)
        ep.add(qty, price, comm)
        last[a] = price
        sides.add(qty > 0)
        net = ep.net
        if driver != 'position' and net == 0:
            if cur is not None:
                raise Violation('fill %d: flat position in %s still in the book' % (i, a))
            eps[a] = Episode()
            cls.add('closed_to_zero')
            last.pop(a, None)
        else:
            if cur is None:
                raise Violation('fill %d: position in %s missing with net %r' % (i, a, net))
            e = _check(cur, ep, price, 'fill %d (%s)' % (i, driver))
            both = any(x[0] > 0 for x in ep.fills) and any(x[0] < 0 for x in ep.fills)
            open_comm = any(c != 0 for qq, p, c in ep.fills if (qq > 0) == (net > 0)) if net != 0 else False
            if any(c < 0 for qq, p, c in ep.fills):
                cls.add('negative_commission')
            if both and open_comm and net != 0:
                nt = True
            if both and net != 0 and (ep.fills[0][0] > 0) != (net > 0):
                cls.add('flipped')
            if net == 0:
                cls.add('flat_persisting')
            if abs(net) == 1:
                cls.add('net_exactly_1')
            if price <= 1.0:
                cls.add('price_le_1')
        if driver == 'handler':
            pos = ph.positions.get(a)       # a refused fill arrives through the position handler
        if case.get('refused_fills') and driver in ('position', 'handler') and pos is not None and i % 3 == 1 and ep.net != 0:
            # a fill stamped before the position's own time is refused with ValueError.  Whether the refused fill counts
            # as one of "its fills" is not stated - but the position must reconcile to one of the two ledgers: all the
            # fills so far with, or without, the refused one (never to a mixture)
            bad_q = float(case['refused_fills']) * (1 if i % 2 else -1)
            bad = q.Transaction(a, bad_q, t - pd.Timedelta(days=3), price * 1.5 + 0.01, 'refused%d' % i, commission=7.25)
            try:
                if driver == 'handler':
                    ph.transact_position(bad)
                else:
                    pos.transact(bad)
            except ValueError:
                with_ = Episode()
                with_.fills = list(ep.fills)
                with_.add(bad_q, price * 1.5 + 0.01, 7.25)
                try:
                    _check(pos, ep, last[a], 'after a refused fill following fill %d (ledger without it)' % i)
                except Violation as v1:
                    try:
                        _check(pos, with_, last[a], 'after a refused fill following fill %d (ledger with it)' % i)
                    except Violation as v2:
                        raise Violation('after a fill that was refused (timestamp before the position\'s) the position '
                                        'reconciles neither to the fills without it (%s) nor to the fills including it (%s)' % (
                                            str(v1)[:160], str(v2)[:160]))
                    eps[a] = ep = with_
                    if ep.net == 0:
                        # the booked-but-refused fill closed the position: a fresh episode has nothing to compare
                        return Result(sorted(cls | {'refused_fill_closed_position'}), nontrivial=nt)
                cls.add('refused_fill_in_between')
            else:
                raise Violation('a fill dated before the position\'s time was accepted')
        for (ma, mprice) in marks.get(i, []):
            ma = names[ma if driver != 'position' else 0]
            if driver == 'position':
                tgt = pos
            elif driver == 'handler':
                tgt = ph.positions.get(ma)
            else:
                tgt = port.pos_handler.positions.get(ma)
            if tgt is None:
                continue
            no_dt = bool(case.get('marks_without_dt')) and (i + len(last)) % 2 == 0
            if case.get('bad_marks') and driver != 'portfolio' and i % 2:
                # a re-mark stamped before the position's own time is refused - and must change nothing
                snap = (tgt.current_price, tgt.realised_pnl, tgt.unrealised_pnl, tgt.net_quantity)
                try:
                    tgt.update_current_price(mprice * 0.5 + 0.01, t - pd.Timedelta(days=3))
                except ValueError:
                    pass
                else:
                    raise Violation('a re-mark dated before the position\'s time was accepted')
                if (tgt.current_price, tgt.realised_pnl, tgt.unrealised_pnl, tgt.net_quantity) != snap:
                    raise Violation('a refused re-mark changed (price, realised, unrealised, net) %r -> %r' % (
                        snap, (tgt.current_price, tgt.realised_pnl, tgt.unrealised_pnl, tgt.net_quantity)))
                cls.add('refused_remark')
            _remark(tgt, eps[ma], last[ma], mprice, None if no_dt else t, 'after fill %d (%s)' % (i, driver),
                    via=port if driver == 'portfolio' and (i + len(fills)) % 2 else None)
            if no_dt:
                cls.add('mark_without_timestamp')
            last[ma] = mprice
            cls.add('remarked')
        if driver == 'portfolio':
            # portfolio-level totals equal the sums over positions, and the holdings report agrees
            exp = {'total': F(0), 'unrealised': F(0), 'mv': F(0), 'scale': F(0)}
            for aa, pp in port.pos_handler.positions.items():
                e = eps[aa].expect(last[aa])
                for k in exp:
                    exp[k] += e[k]
            tol = 1e-9 * float(exp['scale']) + 1e-13
            if abs(port.total_pnl - float(exp['total'])) > tol:
                raise Violation('fill %d: portfolio total P&L %r != sum over positions %r' % (
                    i, port.total_pnl, float(exp['total'])))
            if abs(port.total_unrealised_pnl - float(exp['unrealised'])) > tol:
                raise Violation('fill %d: portfolio unrealised P&L %r != %r' % (
                    i, port.total_unrealised_pnl, float(exp['unrealised'])))
            if abs(port.total_realised_pnl - float(exp['total'] - exp['unrealised'])) > tol:
                raise Violation('fill %d: portfolio realised P&L %r != %r' % (
                    i, port.total_realised_pnl, float(exp['total'] - exp['unrealised'])))
            d = port.portfolio_to_dict()
            for aa, row in d.items():
                pos_ = port.pos_handler.positions[aa]
                if (row['total_pnl'], row['realised_pnl'], row['unrealised_pnl']) != (
                        pos_.total_pnl, pos_.realised_pnl, pos_.unrealised_pnl):
                    raise Violation('fill %d: holdings report P&L for %s differs from the position' % (i, aa))
    cls.add(driver)
    if case.get('fractional'):
        cls.add('fractional_quantities')
    if case.get('subunit_open'):
        cls.add('position_opened_by_a_sub_unit_fill')
    if case.get('same_instants') and len(fills) > 2:
        cls.add('fills_at_the_timestamp_of_the_previous_one')
    if case.get('repeat_order_ids'):
        cls.add('fills_sharing_order_ids')
    if any(abs(f[1]) >= 100000 for f in fills):
        cls.add('six_figure_quantities')
    cls.add('k_%d' % min(len(fills), 7))
    if len(sides) == 2:
        cls.add('both_sides')
    return Result(sorted(cls), nontrivial=nt)


# ---------------------------------------------------------------------------------------------------------

def _vals(seed, idx, n):
    """n floats in [0,1) derived from (seed, idx) - a pure function, no RNG state."""
    out = []
    h = hashlib.sha256(('%d/%d' % (seed, idx)).encode()).digest()
    while len(out) < n:
        for i in range(0, 32, 4):
            out.append(int.from_bytes(h[i:i + 4], 'big') / 2.0 ** 32)
        h = hashlib.sha256(h).digest()
    return out[:n]


def _price(u):
    return float('%.6g' % (10.0 ** (-2 + 6 * u)))


def paths(tier):
    seed = int(os.environ.get('VERIF_SEED', '1') or 1)
    if tier == 'quick':
        kmax, mags, draws = 4, (1, 2, 3, 5, 10), 1
    else:
        kmax, mags, draws = 6, (1, 2, 5), 40
    idx = 0
    for k in range(1, kmax + 1):
        for signs in itertools.product((1, -1), repeat=k):
            for ms in itertools.product(mags, repeat=k):
                for rep in range(draws):
                    idx += 1
                    v = _vals(seed, idx, 3 * k + 2)
                    fills = [[0, s * m, _price(v[3 * i]), 0.0 if v[3 * i + 1] < 0.4 else round(50 * v[3 * i + 2], 4)]
                             for i, (s, m) in enumerate(zip(signs, ms))]
                    marks = [[k - 1, 0, _price(v[-1])]]
                    if k > 1:
                        marks.append([int(v[-2] * (k - 1)), 0, _price(v[-2])])
                    for driver in ('position', 'handler'):
                        yield {'driver': driver, 'fills': fills, 'marks': marks}


@st.composite
def ladders(draw):
    driver = draw(st.sampled_from(['position', 'handler', 'portfolio', 'portfolio']))
    n = draw(st.one_of(st.integers(1, 8), st.integers(1, 30), st.integers(1, 80)))
    na = 1 if driver == 'position' else draw(st.integers(1, 3))
    net = [0] * na
    fills, marks = [], []
    subunit_open = False
    # (a refused fill may be booked all the same, after which the planned net below is not the position's any more)
    refused = draw(st.sampled_from([0, 0, 3, 50])) if driver in ('position', 'handler') else 0
    frac = draw(st.sampled_from([False, False, False, True]))      # non-integer quantities of at least one unit
    big = (not frac) and draw(st.sampled_from([False, False, False, True]))     # six-figure quantities
    comm = st.one_of(st.just(0.0), st.floats(0, 50).map(lambda x: round(x, 4)), st.sampled_from([0.01, 1.0]))
    if draw(st.sampled_from([False, False, False, True])):      # rebates: the accounting is linear in the commission
        comm = st.one_of(comm, st.sampled_from([-0.5, -2.0, -0.01]))
    for i in range(n):
        a = draw(st.integers(0, na - 1))
        mode = draw(st.sampled_from(['any', 'any', 'any', 'close', 'flip', 'reduce'] + (['leave_one', 'leave_one'] if big else [])))
        mag = draw(st.one_of(gen.small_qty, st.integers(1, 1000)))
        if big:
            mag = draw(st.one_of(st.integers(100000, 2000000), st.just(150000)))
        if frac:
            mag = draw(st.sampled_from([1.5, 2.5, 4.25, 10.75, 1.0, 3.0, 100.5]))
        if mode == 'leave_one' and abs(net[a]) > 1:
            qty = -(net[a] - (1 if net[a] > 0 else -1))          # huge turnover, one share left
        elif mode == 'close' and net[a] != 0:
            qty = -net[a]
        elif mode == 'flip' and net[a] != 0:
            qty = -net[a] - (mag if net[a] > 0 else -mag)
        elif mode == 'reduce' and abs(net[a]) > 2:
            qty = -(int(abs(net[a])) // 2) * (1 if net[a] > 0 else -1)
        else:
            qty = mag if draw(st.booleans()) else -mag
        if abs(qty) < 1:          # sub-unit fills are outside the domain (documented as "no quantity" by the code)
            qty = (1.5 if frac else 1) * (1 if qty >= 0 else -1)
        if frac and net[a] == 0 and ((driver != 'position' and not refused) or not fills) and draw(st.sampled_from([False, False, True])):
            # ... except for the fill that opens a position, which is booked whatever its size
            qty = draw(st.sampled_from([0.5, 0.25, -0.5, 0.75]))
            subunit_open = True
        if frac and net[a] != 0 and draw(st.sampled_from([False] * 5 + [True])):
            qty = draw(st.sampled_from([-0.5, -0.25, -0.75]))        # a sell of less than one unit is booked like any other
        if driver != 'position' and draw(st.sampled_from([False] * 14 + [True])):
            qty = 0                 # an order sized down to zero shares
        net[a] += qty
        fills.append([a, qty, draw(gen.prices), draw(comm)])
        if draw(st.sampled_from([True, False, False])):
            marks.append([i, draw(st.integers(0, na - 1)), draw(gen.prices)])
    return {'same_instants': draw(st.booleans()), 'subunit_open': subunit_open, 'driver': driver, 'fills': fills, 'marks': marks, 'fractional': frac,
            'refused_fills': refused,
            'repeat_order_ids': draw(st.sampled_from([False, False, True])), 'bad_marks': draw(st.booleans()),
            'marks_without_dt': driver != 'portfolio' and draw(st.booleans())}


# ---------------------------------------------------------------------------------------------------------
# the same identities read from the broker's holdings report while the broker marks and fills

def _check_row(row, ep, mark, where):
    e = ep.expect(mark)
    tol = 1e-9 * float(e['scale']) + 1e-13
    if row['quantity'] != e['net']:
        raise Violation('%s: reported quantity %r, fills sum to %r' % (where, row['quantity'], e['net']))
    if abs(row['total_pnl'] - (row['realised_pnl'] + row['unrealised_pnl'])) > tol:
        raise Violation('%s: reported total %r != realised %r + unrealised %r' % (
            where, row['total_pnl'], row['realised_pnl'], row['unrealised_pnl']))
    for key, want in (('market_value', e['mv']), ('total_pnl', e['total']), ('unrealised_pnl', e['unrealised'])):
        if abs(row[key] - float(want)) > tol:
            raise Violation('%s: reported %s %r; fills %s at the latest price %r give %r' % (
                where, key, row[key], [(float(q_), float(p_), float(c_)) for q_, p_, c_ in ep.fills], float(mark), float(want)))


def run_broker(case):
    """Orders filled and positions re-marked by SimulatedBroker.update (open and closed hours, orders waiting over
    closed hours), the P&L read from get_portfolio_as_dict after every update."""
    from vlib import cal, kit
    q = load()
    names = kit.ASSET_POOL[:case['na']]
    dh = kit.StubDH()
    for a, p in zip(names, case['start_prices']):
        dh.set(a, p, p * (1 + case['spread']))
    t = kit.T_OPEN
    b = q.SimulatedBroker(t, q.SimulatedExchange(t), dh, initial_funds=4e12, fee_model=kit.fee_model(case['fee']))
    pids = ['p', 'p2'][:case['np']]
    log = []
    for pid in pids:
        b.create_portfolio(pid)
        b.subscribe_funds_to_portfolio(pid, 1e12)
        kit.tap(b.portfolios[pid], log, pid)
    eps = {pid: {} for pid in pids}
    last = {pid: {} for pid in pids}
    cls = set()
    nt = False
    for i, st_ in enumerate(case['steps']):
        adv = st_['adv']
        if adv == 'closed':
            t = cal.ts(t.date(), 22, 0) if (t.hour, t.minute) < (22, 0) else t + pd.Timedelta(minutes=7)
        elif adv == 'nextday':
            d = t.date() + pd.Timedelta(days=1)
            while d.weekday() > 4:
                d += pd.Timedelta(days=1)
            t = cal.ts(d, 15, 0)
        else:
            t = t + pd.Timedelta(minutes=1)
        is_open = t.weekday() < 5 and (14, 30) <= (t.hour, t.minute) < (21, 0)
        for ai, f in st_['moves']:
            bid = dh.q[names[ai % len(names)]][0] * f
            dh.set(names[ai % len(names)], bid, bid * (1 + case['spread']))
        for pi, ai, qty in st_['orders']:
            b.submit_order(pids[pi % len(pids)], q.Order(t, names[ai % len(names)], qty))
        if st_.get('read_first'):
            for pid in pids:
                b.get_portfolio_as_dict(pid)             # a report read between submission and update
        n0 = len(log)
        b.update(t)
        new = log[n0:]
        if new and not is_open:
            raise Violation('step %d: fills at %s, outside exchange hours' % (i, t))
        filled = {pid: set() for pid in pids}
        for pid in pids:
            for a in list(eps[pid]):
                # every held asset is re-marked at the mid quote of the update time, before any fill
                last[pid][a] = dh.get_asset_latest_mid_price(t, a)
        for pid, txn in new:
            ep = eps[pid].setdefault(txn.asset, Episode())
            ep.add(txn.quantity, txn.price, txn.commission)
            last[pid][txn.asset] = txn.price
            filled[pid].add(txn.asset)
            if ep.net == 0:
                del eps[pid][txn.asset]
                last[pid].pop(txn.asset, None)
                cls.add('closed_to_zero')
        for pid in pids:
            rep = b.get_portfolio_as_dict(pid)
            if set(rep) != set(eps[pid]):
                raise Violation('step %d at %s: %s reports positions in %s, the fills leave %s open' % (
                    i, t, pid, sorted(rep), sorted(eps[pid])))
            for a, row in rep.items():
                _check_row(row, eps[pid][a], last[pid][a], 'step %d at %s (%s), %s %s' % (
                    i, t, 'open' if is_open else 'closed', pid, a))
                ep = eps[pid][a]
                if a not in filled[pid]:
                    cls.add('remarked_by_the_broker' + ('' if is_open else '_in_closed_hours'))
                    if any(pids[pi % len(pids)] == pid and names[ai % len(names)] == a for pi, ai, _ in st_['orders']) and not is_open:
                        cls.add('remarked_while_an_order_in_it_waits')
                    if any(x[0] > 0 for x in ep.fills) and any(x[0] < 0 for x in ep.fills) and st_['moves']:
                        nt = True
    if case.get('hedged'):
        cls.add('market_neutral_book_opened_at_zero_market_value')
    cls.add('portfolios_%d' % len(pids))
    cls.add('fee_' + ('zero' if case['fee'] is None else 'percent'))
    return Result(sorted(cls), nontrivial=nt, info={'fills': len(log)})


@st.composite
def broker_cases(draw):
    na = draw(st.integers(1, 3))
    np_ = draw(st.sampled_from([1, 1, 2]))
    steps = []
    net = {}
    for i in range(draw(st.one_of(st.integers(2, 8), st.integers(2, 30)))):
        orders = []
        for _ in range(draw(st.sampled_from([0, 1, 1, 2]))):
            pi, ai = draw(st.integers(0, np_ - 1)), draw(st.integers(0, na - 1))
            cur = net.get((pi, ai), 0)
            how = draw(st.sampled_from(['any', 'any', 'close', 'flip', 'reduce']))
            mag = draw(st.one_of(gen.small_qty, st.integers(1, 1000)))
            if how == 'close' and cur:
                qty = -cur
            elif how == 'flip' and cur:
                qty = -cur - (mag if cur > 0 else -mag)
            elif how == 'reduce' and abs(cur) > 2:
                qty = -(abs(cur) // 2) * (1 if cur > 0 else -1)
            else:
                qty = mag if draw(st.booleans()) else -mag
            net[(pi, ai)] = cur + qty
            orders.append([pi, ai, qty])
        moves = [[draw(st.integers(0, na - 1)), draw(st.sampled_from([0.5, 0.9, 0.97, 1.03, 1.1, 2.0]))]
                 for _ in range(draw(st.sampled_from([0, 1, 1, 2, 3])))]
        steps.append({'adv': draw(st.sampled_from(['min', 'min', 'closed', 'closed', 'nextday'])), 'orders': orders,
                      'moves': moves, 'read_first': draw(st.booleans())})
    start_prices = [draw(st.one_of(gen.prices, gen.prices, st.sampled_from([8e-6, 0.0004]))) for _ in range(na)]      # incl. micro-priced assets
    hedged = na >= 2 and draw(st.sampled_from([False, False, False, True]))
    if hedged:
        # a market-neutral book: long n of one asset and short n of another quoted at the same price, so that the
        # portfolio's market value is exactly zero when the positions are opened
        start_prices[1] = start_prices[0]
        n_ = draw(st.sampled_from([1, 100, 250]))
        steps.insert(0, {'adv': 'min', 'orders': [[0, 0, n_], [0, 1, -n_]], 'moves': [], 'read_first': False})
    return {'na': na, 'np': np_, 'steps': steps, 'hedged': hedged,
            'start_prices': start_prices,
            'spread': 0.0 if hedged else draw(st.sampled_from([0.0, 0.01, 0.25])),
            'fee': draw(st.sampled_from([None, None, [0.001, 0.005], [0.01, 0.0]]))}


PARTS = [
    Part('broker', 'hyp', run_broker, strategy=broker_cases(), quick=1500, thorough=120000, quick_shards=8),
    Part('paths', 'sweep', run_case, sweep=paths, quick_shards=8, exhaustive=True),
    Part('random', 'hyp', run_case, strategy=ladders(), quick=4000, thorough=320000, quick_shards=8),
]
