"""C12 - the simulation clock is strictly increasing and covers exactly business days."""
import datetime as D

import pandas as pd

from hypothesis import strategies as st

from vlib import cal, gen
from vlib.runner import Part, Result, Violation
from vlib.sut import load

PROPERTY = 'C12'
RULE = ('Generated (start, end, pre_market, post_market) with end time-of-day >= start time-of-day: start dates '
        'uniform over 1990-2040 plus edge dates (leap days, year ends, month ends on weekends, each weekday), '
        'durations {0..8} u U(9,70) u U(71,800) days, plus end<start cases that must be rejected. Oracle: event '
        'list rebuilt from datetime.date arithmetic, compared for equality, strictly increasing, and identical when '
        'the same engine object is iterated a second time; a sixth of the ranges are written in another time zone '
        '(New York, Tokyo, London; local and UTC calendar day agree) and must give the same UTC events; part '
        '`session`: the clock a BacktestTradingSession iterates, with a burn-in date inside, at the edges of or after '
        'the range, equals the calendar for (start, end). Distinct = '
        'distinct case JSON; non-trivial = the range spans a weekend with >=2 business days, or is a single day, '
        'or has no business day, or crosses a month/year/leap-day boundary, or is an end<start rejection.'
        " Round-10 reach: flags passed positionally (`flags_how='positional'`)."
        " Round-11 reach: `peek_first` (the first event is looked at before the full pass); for ranges in other zones an engine over the same instants written in UTC is built and listed first."
        " Round-13 reach: ranges in Asia/Jerusalem around a Friday clock change (26 March 2021).")
ASSUMPTIONS = [
    'UTC-aware pandas Timestamps as in every documented example',
    'end time-of-day is not before the start time-of-day (the property\'s stated domain)',
    'dates 1990-2040, ranges up to 800 days (random) / 40 days from every start date 2019-2024 (sweep)',
]


def run_session_clock(case):
    """The clock a trading session actually iterates (session.sim_engine), with and without a burn-in date."""
    q = load()
    start, end = cal.ts6(case['start']), cal.ts6(case['end'])
    uni = q.StaticUniverse(['EQ:A'])
    kw = {}
    if case['burn_in'] is not None:
        kw['burn_in_dt'] = cal.ts6(case['burn_in'])
    if case['rebalance'] == 'weekly':
        kw['rebalance_weekday'] = 'WED'
    bt = q.BacktestTradingSession(start, end, uni, q.FixedSignalsAlphaModel({'EQ:A': 1.0}), rebalance=case['rebalance'], long_only=True, cash_buffer_percentage=0.05,
                                  data_handler=q.BacktestDataHandler(uni, data_sources=[]), **kw)
    got = [(e.ts, e.event_type) for e in bt.sim_engine]
    exp = cal.clock_events(cal.date3(case['start']), cal.date3(case['end']), False, False)
    if got != exp:
        k = next((i for i, (g, e) in enumerate(zip(got, exp)) if g != e), min(len(got), len(exp)))
        raise Violation('the session clock for %s..%s (burn-in %s) differs from the calendar at event %d: got %s '
                        'expected %s (lengths %d/%d)' % (start, end, case['burn_in'], k, got[k] if k < len(got) else None,
                                                         exp[k] if k < len(exp) else None, len(got), len(exp)))
    cls = ['session_clock', 'burn_in' if case['burn_in'] is not None else 'no_burn_in']
    return Result(cls, nontrivial=case['burn_in'] is not None and len(got) > 2, info={'events': len(got)})


@st.composite
def session_cases(draw):
    start, end = draw(gen.ranges(dur=gen.short_durations, start_tod=st.sampled_from([(0, 0, 0), (14, 30, 0), (9, 0, 0)])))
    d0, d1 = cal.date3(start), cal.date3(end)
    n = (d1 - d0).days
    burn = None
    if draw(st.sampled_from([True, True, False])):
        b = d0 + D.timedelta(days=draw(st.integers(0, n + 3)))
        burn = [b.year, b.month, b.day] + draw(st.sampled_from([[0, 0, 0], [14, 30, 0], [21, 0, 0]]))
    return {'start': start, 'end': end, 'burn_in': burn,
            'rebalance': draw(st.sampled_from(['daily', 'weekly', 'end_of_month', 'buy_and_hold']))}


def _ts(v6, tz):
    return cal.ts6(v6) if tz is None else pd.Timestamp(*v6, tz=tz)


def run_case(case):
    q = load()
    tz = case.get('tz')
    start, end = _ts(case['start'], tz), _ts(case['end'], tz)
    if case.get('invalid'):
        try:
            q.DailyBusinessDaySimulationEngine(start, end, pre_market=case['pre'], post_market=case['post'])
        except ValueError:
            return Result(['rejected_end_before_start'], nontrivial=True)
        raise Violation('end %s earlier than start %s was accepted' % (end, start))
    if tz:
        # another engine over the very same instants, written in UTC (other calendar days), was built and listed first
        try:
            list(q.DailyBusinessDaySimulationEngine(start.tz_convert('UTC'), end.tz_convert('UTC'), pre_market=False, post_market=False))
        except Exception:                                         # noqa
            pass
    how = case.get('flags_how', 'ctor')
    if how == 'attr':
        # the public flags are re-set on the live engine (it is built with the opposite values)
        eng = q.DailyBusinessDaySimulationEngine(start, end, pre_market=not case['pre'], post_market=not case['post'])
        eng.pre_market, eng.post_market = case['pre'], case['post']
    elif how == 'numpy':
        import numpy as np
        eng = q.DailyBusinessDaySimulationEngine(start, end, pre_market=np.bool_(case['pre']), post_market=np.bool_(case['post']))
    elif how == 'int':
        eng = q.DailyBusinessDaySimulationEngine(start, end, pre_market=int(case['pre']), post_market=int(case['post']))
    elif how == 'pre_only':
        # only the first flag is given: the second keeps its documented default (True)
        eng = q.DailyBusinessDaySimulationEngine(start, end, pre_market=case['pre'])
        case = dict(case, post=True)
    elif how == 'positional':
        # the documented signature is (starting_day, ending_day, pre_market, post_market)
        eng = q.DailyBusinessDaySimulationEngine(start, end, case['pre'], case['post'])
    elif how == 'defaults':
        eng = q.DailyBusinessDaySimulationEngine(start, end)
        case = dict(case, pre=True, post=True)
    else:
        eng = q.DailyBusinessDaySimulationEngine(start, end, pre_market=case['pre'], post_market=case['post'])
    if case.get('peek_first'):
        # somebody looked at the first event only before the clock is read in full
        next(iter(eng), None)
    got = [(e.ts, e.event_type) for e in eng]
    exp = cal.clock_events(cal.date3(case['start']), cal.date3(case['end']), case['pre'], case['post'])
    if got != exp:
        k = next((i for i, (g, e) in enumerate(zip(got, exp)) if g != e), min(len(got), len(exp)))
        raise Violation('clock differs from the calendar at event %d: got %s expected %s (lengths %d/%d)' % (
            k, got[k] if k < len(got) else None, exp[k] if k < len(exp) else None, len(got), len(exp)))
    for a, b in zip(got, got[1:]):
        if not a[0] < b[0]:
            raise Violation('clock not strictly increasing: %s then %s' % (a, b))
    # a second iteration of the same engine object gives the same events - this time the event objects are kept in
    # a list first and read afterwards (each event is a value of its own)
    kept = list(eng)
    again = [(e.ts, e.event_type) for e in kept]
    if again != got:
        raise Violation('the events of a second iteration, kept in a list and read afterwards, are %s...; read on the '
                        'fly the first time they were %s... (%d / %d events)' % (again[:3], got[:3], len(again), len(got)))
    # two iterations of the same engine alive at the same time do not disturb each other
    pairs = [((a.ts, a.event_type), (b.ts, b.event_type)) for a, b in zip(eng, eng)]
    if [x for x, _ in pairs] != got or any(x != y for x, y in pairs):
        raise Violation('two simultaneous iterations of one engine give %s...; a single pass gives %s... (%d / %d events)' % (
            pairs[:2], got[:2], len(pairs), len(got)))
    cls = gen.range_classes(case['start'], case['end'])
    cls.append('flags_%d%d' % (case['pre'], case['post']))
    if case['start'][0] < 1970:
        cls.append('before_1970')
    if case['start'][0] < 1700 or case['start'][0] > 2250:
        cls.append('centuries_away')
    if how != 'ctor':
        cls.append('flags_given_as_' + how)
    if tz:
        cls.append('range_given_in_another_time_zone')
    if case.get('peek_first'):
        cls.append('first_event_peeked_before_the_full_pass')
    nt = any(c in cls for c in ('spans_weekend', 'single_day', 'no_business_day', 'crosses_month',
                                'crosses_year', 'contains_leap_day'))
    return Result(cls, nontrivial=nt, info={'events': len(got)})


@st.composite
def cases(draw):
    start, end = draw(gen.ranges())
    case = {'start': start, 'end': end, 'pre': draw(st.booleans()), 'post': draw(st.booleans()),
            'peek_first': draw(st.sampled_from([False, False, True])),
            'flags_how': draw(st.sampled_from(['ctor', 'ctor', 'ctor', 'attr', 'numpy', 'int', 'pre_only', 'defaults', 'positional']))}
    if draw(st.sampled_from([False] * 11 + [True])):
        # centuries away from today: the clock is calendar arithmetic, whatever resolution the timestamps use
        y = draw(st.sampled_from([1600, 1677, 2262, 2300, 3000]))
        d_ = D.date(y, draw(st.integers(1, 12)), draw(st.integers(1, 28)))
        e_ = d_ + D.timedelta(days=draw(st.integers(0, 40)))
        case['start'] = [d_.year, d_.month, d_.day] + start[3:]
        case['end'] = [e_.year, e_.month, e_.day] + end[3:]
        return case
    if start[0] >= 1990 and draw(st.sampled_from([False] * 5 + [True])):
        # the same instants written in another zone; times of day chosen so that the local and the UTC calendar day agree
        tz = draw(st.sampled_from(['America/New_York', 'Asia/Tokyo', 'Europe/London', 'Asia/Jerusalem']))
        # the range's days are the calendar days of the timestamps as written (never an hour a clock change can make
        # ambiguous or skip)
        lo, hi = {'America/New_York': (4, 23), 'Asia/Tokyo': (0, 23), 'Europe/London': (4, 23), 'Asia/Jerusalem': (4, 23)}[tz]
        if tz == 'Asia/Jerusalem':
            # (a zone whose clocks change on a Friday: 26 March 2021 lies inside the range)
            d_ = D.date(2021, 3, draw(st.integers(15, 26)))
            e_ = D.date(2021, 3, 26) + D.timedelta(days=draw(st.integers(0, 12)))
            start, end = [d_.year, d_.month, d_.day] + start[3:], [e_.year, e_.month, e_.day] + end[3:]
        h0 = draw(st.integers(lo, hi))
        h1 = draw(st.integers(h0, hi))
        case['start'] = start[:3] + [h0, draw(st.sampled_from([0, 30])), 0]
        case['end'] = end[:3] + [h1, case['start'][4], 0]
        case['tz'] = tz
        return case
    if draw(st.sampled_from([False] * 19 + [True])):
        s, e = cal.ts6(start), cal.ts6(end)
        if e > s:
            case['start'], case['end'] = end, start
        else:
            e = s - pd.Timedelta(seconds=draw(st.sampled_from([1, 60, 86400])))
            case['end'] = [e.year, e.month, e.day, e.hour, e.minute, e.second]
        case['invalid'] = True
    return case


def sweep(tier):
    if tier == 'quick':
        d0, d1, maxdur = D.date(2020, 1, 1), D.date(2020, 12, 31), 9
    else:
        d0, d1, maxdur = D.date(2019, 1, 1), D.date(2024, 12, 31), 40
    for d in cal.days(d0, d1):
        for n in range(maxdur + 1):
            e = d + D.timedelta(days=n)
            for pre in (False, True):
                for post in (False, True):
                    yield {'start': [d.year, d.month, d.day, 0, 0, 0], 'end': [e.year, e.month, e.day, 23, 59, 0],
                           'pre': pre, 'post': post}


PARTS = [
    Part('random', 'hyp', run_case, strategy=cases(), quick=6000, thorough=320000, quick_shards=4),
    Part('sweep', 'sweep', run_case, sweep=sweep, quick_shards=4, exhaustive=True),
    Part('session', 'hyp', run_session_clock, strategy=session_cases(), quick=600, thorough=20000, quick_shards=4),
]
