"""C12 - the simulation clock is strictly increasing and covers exactly business days."""
import datetime as D

import pandas as pd

from hypothesis import strategies as st

from vlib import cal, gen
from vlib.runner import Part, Result, Violation
from vlib.sut import load

PROPERTY = 'C12'
RULE = ('Generated (start, end, pre_market, post_market) with end time-of-day >= start time-of-day: start dates '
        'uniform over 1990-2040 plus edge dates (leap days, year ends, month ends on weekends, each weekday), '
        'durations {0..8} u U(9,70) u U(71,800) days, plus end<start cases that must be rejected. Oracle: event '
        'list rebuilt from datetime.date arithmetic, compared for equality, strictly increasing, and identical when '
        'the same engine object is iterated a second time. Distinct = '
        'distinct case JSON; non-trivial = the range spans a weekend with >=2 business days, or is a single day, '
        'or has no business day, or crosses a month/year/leap-day boundary, or is an end<start rejection.')
ASSUMPTIONS = [
    'UTC-aware pandas Timestamps as in every documented example',
    'end time-of-day is not before the start time-of-day (the property\'s stated domain)',
    'dates 1990-2040, ranges up to 800 days (random) / 40 days from every start date 2019-2024 (sweep)',
]


def run_case(case):
    q = load()
    start, end = cal.ts6(case['start']), cal.ts6(case['end'])
    if case.get('invalid'):
        try:
            q.DailyBusinessDaySimulationEngine(start, end, pre_market=case['pre'], post_market=case['post'])
        except ValueError:
            return Result(['rejected_end_before_start'], nontrivial=True)
        raise Violation('end %s earlier than start %s was accepted' % (end, start))
    eng = q.DailyBusinessDaySimulationEngine(start, end, pre_market=case['pre'], post_market=case['post'])
    got = [(e.ts, e.event_type) for e in eng]
    exp = cal.clock_events(cal.date3(case['start']), cal.date3(case['end']), case['pre'], case['post'])
    if got != exp:
        k = next((i for i, (g, e) in enumerate(zip(got, exp)) if g != e), min(len(got), len(exp)))
        raise Violation('clock differs from the calendar at event %d: got %s expected %s (lengths %d/%d)' % (
            k, got[k] if k < len(got) else None, exp[k] if k < len(exp) else None, len(got), len(exp)))
    for a, b in zip(got, got[1:]):
        if not a[0] < b[0]:
            raise Violation('clock not strictly increasing: %s then %s' % (a, b))
    # a second iteration of the same engine object gives the same events
    again = [(e.ts, e.event_type) for e in eng]
    if again != got:
        raise Violation('iterating the same engine twice gives %d then %d events' % (len(got), len(again)))
    cls = gen.range_classes(case['start'], case['end'])
    cls.append('flags_%d%d' % (case['pre'], case['post']))
    nt = any(c in cls for c in ('spans_weekend', 'single_day', 'no_business_day', 'crosses_month',
                                'crosses_year', 'contains_leap_day'))
    return Result(cls, nontrivial=nt, info={'events': len(got)})


@st.composite
def cases(draw):
    start, end = draw(gen.ranges())
    case = {'start': start, 'end': end, 'pre': draw(st.booleans()), 'post': draw(st.booleans())}
    if draw(st.sampled_from([False] * 19 + [True])):
        s, e = cal.ts6(start), cal.ts6(end)
        if e > s:
            case['start'], case['end'] = end, start
        else:
            e = s - pd.Timedelta(seconds=draw(st.sampled_from([1, 60, 86400])))
            case['end'] = [e.year, e.month, e.day, e.hour, e.minute, e.second]
        case['invalid'] = True
    return case


def sweep(tier):
    if tier == 'quick':
        d0, d1, maxdur = D.date(2020, 1, 1), D.date(2020, 12, 31), 9
    else:
        d0, d1, maxdur = D.date(2019, 1, 1), D.date(2024, 12, 31), 40
    for d in cal.days(d0, d1):
        for n in range(maxdur + 1):
            e = d + D.timedelta(days=n)
            for pre in (False, True):
                for post in (False, True):
                    yield {'start': [d.year, d.month, d.day, 0, 0, 0], 'end': [e.year, e.month, e.day, 23, 59, 0],
                           'pre': pre, 'post': post}


PARTS = [
    Part('random', 'hyp', run_case, strategy=cases(), quick=6000, thorough=320000, quick_shards=4),
    Part('sweep', 'sweep', run_case, sweep=sweep, quick_shards=4, exhaustive=True),
]
