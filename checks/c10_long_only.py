"""C10 - long-only sizing never budgets more than the cash-buffered equity."""
import itertools
import math
from fractions import Fraction as F

import numpy as np
import pandas as pd
from hypothesis import strategies as st

from vlib import gen, kit, refbt
from vlib.runner import Part, Result, Violation
from vlib.sut import load

PROPERTY = 'C10'
RULE = ('Direct calls of the long-only sizer on a real broker: 1-6 assets from a pool with confusable names; '
        'weights mixed/sparse/all-zero/near-zero-sum/small-integer/single; prices log-U(0.01,1e5) plus {0.01,0.5,'
        '1,1.5}; equity log-U(1,1e10) plus small values, held as cash or as cash plus marked positions; buffer '
        '{0,1,0.05,default}|U(0,1); fee zero/default/percentage with c+t<=1; invalid inputs (negative weight, '
        'buffer <0 or >1, NaN price; negative weights down to -1e-12) must raise ValueError; the same sizer instance '
        'serves 1-3 successive weight vectors; a third of the sizers are built by QuantTradingSystem as a session '
        'does. Oracle in exact rationals: q is a non-negative int, '
        'q*p + fee <= alloc < (q+1)*p + fee with alloc=(1-b)*E*w/sum(w) (1e-12 relative slack), sum(q*p) <= '
        '(1-b)*E, keys preserved, all-zero -> all-zero. Plus an exhaustive small grid. Non-trivial = >=2 '
        'positive weights, fee>0 or buffer>0, and some alloc/p with fractional part >= 0.5 (floor != round), '
        'or a rejected invalid input.'
        " Round-4/5 reach: the broker's fee model replaced, cash withdrawn and the sizer's cash_buffer_percentage re-set between calls on one sizer; QuantTradingSystem-built sizers given both sizing keywords; exact clause (quantity == reference sizing in exact rationals unless a quotient is within 1e-12 of a whole number) incl. allocations that are exact multiples of the price; csv part: files in any row order with missing cells, a first bar without an Open, a source quoting a spread, a first-listed source whose history starts later."
        " Round-10 reach: `broker_other_feed` (the broker's own handler quotes x1.75; the sizer and the trading system are given another) in a third of the random cases; csv part: the first-listed, later-starting source may raise instead of answering NaN before its coverage, and the handler is asked 400, 30, 3 and 1 days earlier."
        " Round-11 reach (csv part): `scan_dir` - the source lists the directory itself, which also holds a gzip archive copy with other prices, a backup and a text file; sizing instants a fraction of a second either side of the whole second."
        " Round-12 reach: `via_session` (a BacktestTradingSession accepts exactly the buffers in [0, 1]); csv part: `asked_later_first` (the handler priced later instants before it is asked at t)."
        " Round-13 reach: csv part sizes 6-400 days after the last bar of every file; with via_qts an input the sizer rejects must make QuantTradingSystem.__call__ raise too.")
ASSUMPTIONS = [
    'fee rates with commission + tax <= 1 (a fee above 100% has no meaningful budget)',
    'weight sums either <= 1e-9 (left unscaled by the code, only upper bounds asserted) or >= 5e-5',
    'float slack 1e-12 relative: a one-share error is invisible only when the target exceeds ~1e11 shares',
    'equity is read from the broker (portfolio accounting is C02\'s subject)',
]

REL = F(1, 10 ** 12)


def build(case):
    q = load()
    prices = dict(case['prices'])
    hold = case.get('hold')
    b, dh = kit.funded_broker(case['equity'], fee=case['fee'], prices=prices)
    if hold:
        a, frac, mult = hold
        p = prices.get(a, case.get('hold_price', 10.0))
        dh.set(a, p)
        n = int(frac * case['equity'] / p)
        if n > 0:
            b.submit_order('p', q.Order(kit.T_OPEN, a, n))
            b.update(kit.T_OPEN)
            dh.set(a, p * mult)
            b.update(kit.T_OPEN)
    return q, b, dh


def run_case(case):
    inv = case.get('invalid')
    weights = dict(case['weights'])
    q, b, dh = build(case)
    if case.get('broker_other_feed'):
        # the broker marks positions and fills orders on a feed of its own, quoting other prices; the sizer (and the
        # trading system that builds it) is given this handler
        bdh, dh = dh, kit.StubDH()
        dh.q = dict(bdh.q)
        for a_, (bid_, ask_) in list(bdh.q.items()):
            bdh.q[a_] = (bid_ * 1.75, ask_ * 1.75)
    if inv == 'nan_price':
        dh.q.pop(case['nan_asset'], None)
    buf = case['buffer']
    if case.get('via_session') and buf != 'default' and inv in (None, 'buffer_low', 'buffer_high'):
        # the way a back-test passes it: BacktestTradingSession(..., long_only=True, cash_buffer_percentage=b) accepts
        # exactly the buffers in [0, 1] (both ends included) and hands them to the sizer unchanged
        uni_ = q.StaticUniverse(sorted(weights))
        s0_ = pd.Timestamp('2021-03-01 14:30:00', tz='UTC')
        try:
            bt_ = q.BacktestTradingSession(s0_, s0_ + pd.Timedelta(days=9), uni_, q.FixedSignalsAlphaModel(dict.fromkeys(weights, 1.0)),
                                           rebalance='daily', long_only=True, cash_buffer_percentage=buf,
                                           data_handler=q.BacktestDataHandler(uni_, data_sources=[]))
        except ValueError:
            if inv is None:
                raise Violation('a back-test session refused the cash buffer %r' % buf)
            bt_ = None
        if bt_ is not None:
            if inv is not None:
                raise Violation('cash buffer %r was accepted by BacktestTradingSession' % buf)
            sz_ = bt_.qts.portfolio_construction_model.order_sizer
            if not isinstance(sz_, q.DollarWeightedCashBufferedOrderSizer) or sz_.cash_buffer_percentage != buf:
                raise Violation('a long-only session with cash buffer %r built %s with buffer %r' % (
                    buf, type(sz_).__name__, getattr(sz_, 'cash_buffer_percentage', None)))
    if inv in ('buffer_low', 'buffer_high'):
        try:
            if case.get('via_qts'):
                q.QuantTradingSystem(q.StaticUniverse(sorted(weights)), b, 'p', dh, None, long_only=True,
                                     cash_buffer_percentage=buf, submit_orders=False,
                                   **({'gross_leverage': 2.0} if case.get('both_kwargs') else {}))
            else:
                q.DollarWeightedCashBufferedOrderSizer(b, 'p', dh, cash_buffer_percentage=buf)
        except ValueError:
            return Result(['rejected_' + inv] + (['rejected_via_trading_system'] if case.get('via_qts') else []), nontrivial=True)
        raise Violation('cash buffer %r was accepted%s' % (buf, ' by QuantTradingSystem' if case.get('via_qts') else ''))
    if buf == 'default':
        sizer = q.DollarWeightedCashBufferedOrderSizer(b, 'p', dh)
        buf = 0.05
    elif case.get('via_qts'):
        # the way a session builds it: QuantTradingSystem(..., long_only=True, cash_buffer_percentage=b)
        qts = q.QuantTradingSystem(q.StaticUniverse(sorted(weights)), b, 'p', dh, None, long_only=True,
                                   cash_buffer_percentage=buf, submit_orders=False,
                                   **({'gross_leverage': 2.0} if case.get('both_kwargs') else {}))
        sizer = qts.portfolio_construction_model.order_sizer
        if not isinstance(sizer, q.DollarWeightedCashBufferedOrderSizer):
            raise Violation('long-only trading system built a %s' % type(sizer).__name__)
    else:
        sizer = q.DollarWeightedCashBufferedOrderSizer(b, 'p', dh, cash_buffer_percentage=buf)
    E = F(b.get_portfolio_total_equity('p'))
    if E <= 0:
        return Result(['nonpositive_equity_skipped'], excluded='nonpositive_equity')
    if inv in ('neg_weight', 'nan_price'):
        try:
            out = sizer(kit.T_OPEN, dict(weights))
        except ValueError:
            if case.get('via_qts') and buf != 'default':
                # ... and the error reaches the caller of the trading system too: a rebalance that cannot be sized is
                # not skipped silently
                class _Alpha(object):
                    def __call__(self, dt):
                        return dict(weights)
                qts_ = q.QuantTradingSystem(q.StaticUniverse(sorted(weights)), b, 'p', dh, _Alpha(), long_only=True,
                                            cash_buffer_percentage=buf, submit_orders=False)
                try:
                    qts_(kit.T_OPEN)
                except ValueError:
                    return Result(['rejected_' + inv, 'rejection_reaches_the_caller_of_the_trading_system'], nontrivial=True)
                raise Violation('%s: the sizer refuses, but QuantTradingSystem.__call__ returned normally (weights %r)' % (inv, weights))
            return Result(['rejected_' + inv], nontrivial=True)
        raise Violation('%s was accepted: weights %r prices %r -> %r' % (inv, weights, dh.q, out))

    all_cls, any_nt = (['broker_on_another_feed'] if case.get('broker_other_feed') else []), False
    fee_now = case['fee']
    vectors = [weights] + [dict(w) for w in case.get('more_weights', [])]
    for call_no, weights in enumerate(vectors):
        if call_no and case.get('move_cash'):
            # the portfolio's equity changes between two calls on the same sizer (same instant)
            c_ = b.get_portfolio_cash_balance('p')
            if c_ > 2:
                b.withdraw_funds_from_portfolio('p', float('%.6g' % (0.4 * c_)))
                all_cls.append('equity_changed_between_calls')
        if call_no and case.get('swap_fee') is not None:
            # the broker's fee schedule changes while the sizer lives on: the sizer must follow the broker's model
            b.fee_model = kit.fee_model(case['swap_fee'] or None)
            fee_now = case['swap_fee'] or None
            all_cls.append('fee_model_replaced')
        if call_no and case.get('new_buffer') is not None:
            # the sizer's public cash_buffer_percentage attribute is re-set on the live object: later calls follow it
            sizer.cash_buffer_percentage = case['new_buffer']
            buf = case['new_buffer']
            all_cls.append('buffer_changed_on_live_sizer')
        E = F(b.get_portfolio_total_equity('p'))
        out = sizer(kit.T_OPEN, dict(weights))
        if set(out.keys()) != set(weights.keys()):
            raise Violation('target keys %s differ from weight keys %s' % (sorted(out), sorted(weights)))
        f = kit.fee_rate(fee_now)
        b_ = F(buf)
        budget = (1 - b_) * E
        wsum_float = sum(w for w in weights.values())
        wsum = sum(F(w) for w in weights.values())
        unscaled = bool(np.isclose(wsum_float, 0.0))
        cls = []
        total = F(0)
        half = False
        for a, w in weights.items():
            qty = out[a]['quantity']
            if isinstance(qty, bool) or not isinstance(qty, (int, np.integer)):
                raise Violation('quantity for %s is %r (%s), not a whole number' % (a, qty, type(qty).__name__))
            if qty < 0:
                raise Violation('negative quantity %r for %s' % (qty, a))
            p = F(dh.q[a][1])
            total += qty * p
            if wsum == 0:
                if qty != 0:
                    raise Violation('all-zero weights gave quantity %r for %s' % (qty, a))
                continue
            share = budget * F(w) / wsum                       # normalised share of the buffered equity
            if unscaled:
                if qty * p > share * (1 + REL):
                    raise Violation('near-zero-sum weights: %s costs %s > share %s' % (a, float(qty * p), float(share)))
                continue
            fee = f * share
            slack = REL * (share + p)
            if qty * p + fee > share + slack:
                raise Violation('%s: quantity %d at %r costs %r + fee %r > allocation %r (E=%r buffer=%r w=%r/%r)' % (
                    a, qty, float(p), float(qty * p), float(fee), float(share), float(E), buf, w, float(wsum)))
            if (qty + 1) * p + fee <= share - slack:
                raise Violation('%s: quantity %d is not the largest affordable: one more at %r still fits '
                                'allocation %r (fee %r, E=%r buffer=%r w=%r/%r)' % (
                                    a, qty, float(p), float(share), float(fee), float(E), buf, w, float(wsum)))
            x = (share - fee) / p
            if x > 0 and (x - int(x)) >= F(1, 2):
                half = True
            if x >= 10 ** 11:
                cls.append('huge_quantity')
        # exact clause: away from float-ambiguous quotients the quantity is the truncation of the exact quotient
        if wsum != 0 and not unscaled:
            try:
                ref = refbt.size_long_only(E, b_, None if f == 0 else list(fee_now), {a: F(w) for a, w in weights.items()},
                                           {a: F(dh.q[a][1]) for a in weights})
            except refbt.Ambiguous:
                ref = None
                cls.append('quotient_within_1e-12_of_a_whole_number')
            if ref is not None:
                for a in weights:
                    if out[a]['quantity'] != ref[a]:
                        raise Violation('%s: quantity %d, truncating (allocation after fees) / price = %r gives %d '
                                        '(E=%r buffer=%r w=%r/%r f=%r price=%r)' % (
                                            a, out[a]['quantity'], float((budget * F(weights[a]) / wsum) * (1 - f) / F(dh.q[a][1])),
                                            ref[a], float(E), buf, weights[a], float(wsum), float(f), dh.q[a][1]))
                if case.get('exact_multiple'):
                    cls.append('allocation_is_exact_multiple_of_price')
        if total > budget * (1 + REL):
            raise Violation('whole target costs %r > (1-buffer)*equity %r' % (float(total), float(budget)))
        npos = sum(1 for w in weights.values() if w > 0)
        cls.append('all_zero' if wsum == 0 else ('near_zero_sum' if unscaled else 'scaled'))
        cls.append('n_assets_%d' % len(weights))
        if case.get('hold'):
            cls.append('equity_with_positions')
        if case['buffer'] == 'default':
            cls.append('default_buffer')
        if case.get('via_qts') and case['buffer'] != 'default':
            cls.append('built_by_trading_system')
        if case['fee'] == 'default':
            cls.append('default_fee_model')
        if f > 0:
            cls.append('fee_positive')
        if E <= 2:
            cls.append('equity_le_2')
        if any(v[1] <= 1.0 for a, v in dh.q.items() if a in weights):
            cls.append('price_le_1')
        if any(out[a]['quantity'] == 1 for a in out):
            cls.append('quantity_exactly_1')
        if half:
            cls.append('fraction_ge_half')
        nt = npos >= 2 and (f > 0 or b_ > 0) and half and not unscaled
        all_cls += cls
        any_nt = any_nt or nt
        if call_no:
            all_cls.append('sizer_reused')
            if set(weights) != set(vectors[call_no - 1]):
                all_cls.append('asset_set_changed_between_calls')
    cls, nt = sorted(set(all_cls)), any_nt
    return Result(cls, nontrivial=nt)


def _weight(draw):
    return draw(st.one_of(
        st.just(0.0),
        st.builds(lambda m, k: float('%.6g' % (m * 10.0 ** k)), st.floats(0.05, 1.0), st.integers(-3, 3)),
        st.integers(1, 5).map(float),
    ))


fees = st.one_of(
    st.none(), st.just('default'),
    st.tuples(st.floats(0, 0.02), st.floats(0, 0.02)).map(list),
    st.tuples(st.floats(0, 0.5), st.floats(0, 0.5)).map(list),
    st.sampled_from([[0.0, 0.0], [0.001, 0.005], [1.0, 0.0], [0.5, 0.5]]),
)
price = st.one_of(gen.logu(0.01, 1e5), st.sampled_from([0.01, 0.5, 1.0, 1.5, 7.5]))
equity = st.one_of(gen.logu(1e2, 1e10), gen.logu(1e3, 1e7), gen.logu(1e2, 1e10), gen.logu(1, 1e2),
                   st.sampled_from([1e6, 1e4, 99.99, 10.0, 1.5, 1.0]))


@st.composite
def cases(draw):
    assets = draw(st.lists(st.sampled_from(kit.ASSET_POOL), min_size=1, max_size=6, unique=True))
    kind = draw(st.sampled_from(['mixed', 'mixed', 'mixed', 'sparse', 'all_zero', 'near_zero', 'ints', 'single', 'near_one']))
    if kind == 'single':
        assets = assets[:1]
    if kind == 'all_zero':
        w = {a: 0.0 for a in assets}
    elif kind == 'near_zero':
        w = {a: draw(st.sampled_from([0.0, 1e-12, 1e-10, 3e-11])) for a in assets}
    elif kind == 'near_one':
        # a vector that sums to almost - not exactly - one (0.333333 x 3, 0.499999 x 2, ...): still normalised
        n_ = len(assets)
        w = {a: float('%.6f' % (1.0 / n_ - draw(st.sampled_from([0.0, 1e-6, 3e-6])))) for a in assets}
    elif kind == 'ints':
        w = {a: float(draw(st.integers(0, 3))) for a in assets}
    elif kind == 'sparse':
        w = {a: (draw(st.floats(0.05, 1.0).map(lambda x: float('%.4g' % x))) if i == 0 else 0.0)
             for i, a in enumerate(assets)}
    else:
        w = {a: _weight(draw) for a in assets}
    case = {
        'weights': w,
        'prices': {a: draw(price) for a in assets},
        'equity': draw(equity),
        'buffer': draw(st.one_of(st.sampled_from([0.0, 1.0, 0.05, 'default', 0.5]),
                                 st.floats(0, 1).map(lambda x: float('%.4g' % x)))),
        'fee': draw(fees),
    }
    if draw(st.sampled_from([False, False, False, True])):
        a = draw(st.sampled_from(kit.ASSET_POOL))
        case['hold'] = [a, draw(st.sampled_from([0.1, 0.3, 0.5])), draw(st.sampled_from([0.5, 0.9, 1.0, 1.7]))]
        if a not in case['prices']:
            case['hold_price'] = draw(price)
    if kind in ('mixed', 'ints') and draw(st.sampled_from([False, False, True])):
        case['more_weights'] = []
        for _ in range(draw(st.integers(1, 2))):
            sub = assets if draw(st.booleans()) else draw(st.lists(st.sampled_from(assets), min_size=1, unique=True))
            case['more_weights'].append({a: _weight(draw) for a in sub})
    case['via_qts'] = draw(st.sampled_from([False, False, True]))
    case['broker_other_feed'] = draw(st.sampled_from([False, False, True]))
    case['via_session'] = draw(st.sampled_from([False, False, False, True]))
    case['both_kwargs'] = draw(st.booleans())      # a shared configuration carrying both sizing keywords
    inv = draw(st.sampled_from([None] * 12 + ['neg_weight', 'buffer_low', 'buffer_high', 'nan_price']))
    if inv == 'neg_weight':
        a = draw(st.sampled_from(assets))
        case['weights'][a] = -draw(st.sampled_from([1e-6, 0.01, 0.5, 1.0, 3.0, 1e-10, 1e-12, 1e-9]))
    elif inv == 'buffer_low':
        case['buffer'] = -draw(st.sampled_from([1e-9, 0.01, 1.0]))
    elif inv == 'buffer_high':
        case['buffer'] = 1.0 + draw(st.sampled_from([1e-9, 0.01, 1.0]))
    elif inv == 'nan_price':
        case['nan_asset'] = draw(st.sampled_from(assets))
        case.pop('hold', None)
    if inv is None and draw(st.sampled_from([False] * 9 + [True])):
        # the whole allocation is an exact multiple of the price: the quotient is a whole number with nothing to truncate
        a = assets[0]
        pz = draw(st.sampled_from([3.0, 7.0, 11.0, 13.0, 49.0, 97.0, 1001.0, 0.5, 0.25]))
        case.update({'weights': {a: draw(st.sampled_from([1.0, 0.5, 3.0]))}, 'prices': {a: pz},
                     'equity': pz * draw(st.integers(1, 200000)), 'buffer': 0.0, 'fee': None, 'exact_multiple': True})
        case.pop('hold', None)
        case.pop('more_weights', None)
        case.pop('hold_price', None)
    case['move_cash'] = draw(st.booleans())
    case['swap_fee'] = draw(st.sampled_from([None, None, [0.01, 0.005], [0.0, 0.0]]))
    case['new_buffer'] = draw(st.sampled_from([None, None, None, 0.25, 0.0, 0.9]))
    if inv:
        case['invalid'] = inv
        case.pop('more_weights', None)
    return case


def grid(tier):
    A = ['EQ:A', 'EQ:AB', 'EQ:B']
    for ws in itertools.product([0.0, 1.0, 2.0, 3.0], repeat=3):
        for ps in itertools.product([1.0, 3.0, 7.5], repeat=3):
            for E in (10.0, 99.99, 1000.0):
                for buf in (0.0, 0.5, 1.0):
                    yield {'weights': dict(zip(A, ws)), 'prices': dict(zip(A, ps)), 'equity': E, 'buffer': buf,
                           'fee': [0.001, 0.005] if (ws[0] + ps[1]) % 2 else None}



# ---------------------------------------------------------------------------------------------------------------
# the sizer over a real CSV data source: an asset that has no bar yet is unpriced and must be refused

def run_csv(case, long_only=True):
    import datetime as D
    from vlib import cal, market
    from vlib.sut import clear_caches
    from checks.c06_pit_data import lookup, observations
    q = load()
    clear_caches()
    t = cal.ts6(case['t']) + pd.Timedelta(microseconds=case.get('t_us', 0))       # (a fraction of a second either side)
    syms = case['symbols']
    order = case.get('file_order', 'sorted')
    files = syms
    if order != 'sorted':
        # the same rows laid out newest first / shuffled in the files
        import random
        files = {}
        for i, (s, rows) in enumerate(syms.items()):
            rr = list(rows)
            if order == 'reversed':
                rr.reverse()
            else:
                random.Random(1009 * i + len(rr)).shuffle(rr)
            files[s] = rr
    spread = case.get('spread') or 0.0
    late_quotes = False
    with market.csv_dir(files, junk=bool(case.get('scan_dir'))) as path:
        if case.get('scan_dir'):
            # the source lists the directory itself; the directory also holds files that are not bar files (a compressed
            # archive copy with other prices, a backup, notes)
            ds = q.CSVDailyBarDataSource(path, q.Equity, adjust_prices=case['adjust'])
        else:
            ds = q.CSVDailyBarDataSource(path, q.Equity, adjust_prices=case['adjust'], csv_symbols=list(syms))
        if spread:
            # a source quoting ask above bid: the sizers buy at the ask
            ds = kit.SpreadSource(ds, spread)
        sources = [ds]
        if case.get('late_source_first'):
            # another vendor's files for the same symbols, listed first, whose history starts months later (other
            # prices): it has nothing to say at t, so the handler must fall through to the second source
            later = {}
            shift = case.get('late_shift', 91)
            for s, rows in syms.items():
                later[s] = []
                for r in rows:
                    d_ = D.date(r[0], r[1], r[2]) + D.timedelta(days=shift)
                    later[s].append([d_.year, d_.month, d_.day] + [None if x is None else round(x * 1.5, 4) for x in r[3:]])
            market.write_market(later, path + '_later')
            first_src = q.CSVDailyBarDataSource(path + '_later', q.Equity, adjust_prices=case['adjust'], csv_symbols=list(syms))
            if case.get('late_source_raises'):
                first_src = kit.CoverageSource(first_src)        # ... and which refuses instants before its coverage
            sources = [first_src, ds]
        if case.get('first_source_other_symbols'):
            # a first-listed source that does not carry these symbols at all (it raises for them): the search goes on
            market.write_market({'ZZZ': [r[:3] + [9.0, 9.0, 9.0] for r in next(iter(syms.values()))]}, path + '_zzz')
            sources = [q.CSVDailyBarDataSource(path + '_zzz', q.Equity, adjust_prices=case['adjust'], csv_symbols=['ZZZ'])] + sources
        if case.get('second_source_also_quotes'):
            # a second vendor quoting the same symbols on the same days at other prices, listed after the first: the
            # first-listed source that can price an asset answers
            other_v = {s: [r[:3] + [None if x is None else round(x * 1.5, 4) for x in r[3:]] for r in rows]
                       for s, rows in syms.items()}
            market.write_market(other_v, path + '_other')
            sources = sources + [q.CSVDailyBarDataSource(path + '_other', q.Equity, adjust_prices=case['adjust'],
                                                         csv_symbols=list(syms))]
        # the handler may carry a universe - prices do not depend on it: not even on one that lists the assets only later
        huni = None
        if case.get('handler_universe') == 'later':
            huni = q.DynamicUniverse({'EQ:' + s: t + pd.Timedelta(days=40) for s in syms})
        elif case.get('handler_universe') == 'empty':
            huni = q.StaticUniverse([])
        dh = q.BacktestDataHandler(huni, data_sources=sources)
        # the broker's own clock may lag the instant the sizer is asked about (cash only, so equity does not depend on it)
        tb = t - pd.Timedelta(days=case.get('broker_days_back', 0))
        b = q.SimulatedBroker(tb, q.SimulatedExchange(tb), dh, initial_funds=case['equity'],
                              fee_model=kit.fee_model(case['fee']))
        b.create_portfolio('p')
        b.subscribe_funds_to_portfolio('p', case['equity'])
        if long_only:
            sizer = q.DollarWeightedCashBufferedOrderSizer(b, 'p', dh, cash_buffer_percentage=case['arg'])
        else:
            sizer = q.LongShortLeveragedOrderSizer(b, 'p', dh, gross_leverage=case['arg'])
        weights = {'EQ:' + s: w for s, w in case['weights'].items()}
        price = {'EQ:' + s: lookup(observations(rows, case['adjust']), t)[0] * (1.0 + spread) for s, rows in syms.items()}
        if case.get('late_source_first'):
            # where the first-listed (later-starting) source already quotes at t, its price is the answer
            for s in syms:
                pl = lookup(observations(later[s], case['adjust']), t)[0]
                if not math.isnan(pl):
                    price['EQ:' + s] = pl
                    late_quotes = True
            # the handler has answered bid / mid queries a few days earlier (as a broker marking positions does)
            for s in syms:
                for back in ((400, 30, 3, 1) if case.get('late_source_raises') else (3, 1)):
                    dh.get_asset_latest_bid_price(t - pd.Timedelta(days=back), 'EQ:' + s)
                    dh.get_asset_latest_mid_price(t - pd.Timedelta(days=back), 'EQ:' + s)
        if case.get('asked_later_first'):
            # the (long-lived) handler has already priced every asset at later instants - a run over a later period, a
            # report - before it is asked at t; an asset without a bar at or before t is still unpriced at t
            for s in syms:
                for fwd in (45, 6):
                    dh.get_asset_latest_bid_price(t + pd.Timedelta(days=fwd), 'EQ:' + s)
                    dh.get_asset_latest_ask_price(t + pd.Timedelta(days=fwd), 'EQ:' + s)
        unpriced = [a for a in weights if math.isnan(price[a])]
        # the sizing instant may be written in another time zone (the same instant)
        t_call = t.tz_convert(case['tz']) if case.get('tz') else t
        try:
            out = sizer(t_call, dict(weights))
        except ValueError:
            if unpriced:
                return Result(['rejected_unpriced_asset'] + (['first_bar_has_no_open_and_asked_at_that_open']
                              if case.get('blank_first_open') and case.get('where') == 'at_open' else []), nontrivial=True)
            raise Violation('sizing at %s raised although every asset is priced (%s)' % (t, price))
        finally:
            clear_caches()
            import shutil
            shutil.rmtree(path + '_later', ignore_errors=True)
            shutil.rmtree(path + '_other', ignore_errors=True)
            shutil.rmtree(path + '_zzz', ignore_errors=True)
    if unpriced:
        raise Violation('asset(s) %s have no bar at or before %s (first bars %s) yet the sizer returned %s' % (
            unpriced, t, {s: market.first_date(r) for s, r in syms.items()}, out))
    if set(out) != set(weights):
        raise Violation('target keys %s differ from weight keys %s' % (sorted(out), sorted(weights)))
    E = F(case['equity'])
    f = kit.fee_rate(case['fee'])
    total = sum(abs(out[a]['quantity']) * F(price[a]) for a in out)
    bound = (1 - F(case['arg'])) * E if long_only else F(case['arg']) * E * (1 + f)
    if total > bound * (1 + F(1, 10 ** 9)):
        raise Violation('target costs %r at the point-in-time prices %s, more than %r' % (float(total), price, float(bound)))
    cls = ['priced']
    # exact clause: the quantities are the documented sizing at exactly these point-in-time (ask) prices
    wsum_ = sum(abs(w) for w in weights.values())
    if wsum_ > 1e-6:
        try:
            fee_ = None if f == 0 else list(case['fee'])
            wf = {a: F(w) for a, w in weights.items()}
            pf = {a: F(price[a]) for a in weights}
            ref = (refbt.size_long_only(E, F(case['arg']), fee_, wf, pf) if long_only
                   else refbt.size_long_short(E, F(case['arg']), fee_, wf, pf))
        except refbt.Ambiguous:
            ref = None
        if ref is not None:
            for a in weights:
                if out[a]['quantity'] != ref[a]:
                    raise Violation('%s: quantity %d; sizing at the point-in-time ask %r gives %d (E=%r %s=%r w=%r fee=%r)' % (
                        a, out[a]['quantity'], price[a], ref[a], float(E), 'buffer' if long_only else 'leverage',
                        case['arg'], weights[a], case['fee']))
            cls.append('exact_quantities_checked')
    if spread:
        cls.append('source_quotes_a_spread')
        # with a spread the budget inequality is tight enough to tell the ask from the bid
        for a in out:
            if weights[a] > 0 and long_only:
                share = (1 - F(case['arg'])) * E * F(weights[a]) / sum(F(w) for w in weights.values())
                if out[a]['quantity'] * F(price[a]) > share * (1 + F(1, 10 ** 9)):
                    raise Violation('%s: %d at the ask %r costs more than its share %r of the buffered equity' % (
                        a, out[a]['quantity'], price[a], float(share)))
    if order != 'sorted':
        cls.append('files_' + order)
    if case.get('scan_dir'):
        cls.append('source_lists_a_directory_holding_other_files_too')
    if case.get('asked_later_first'):
        cls.append('handler_priced_later_instants_first')
    if case.get('t_us'):
        cls.append('asked_a_fraction_of_a_second_off_the_whole_second')
    if case.get('late_source_first'):
        cls.append('first_listed_source_starts_later')
        if case.get('late_source_raises'):
            cls.append('first_listed_source_refuses_instants_before_its_coverage')
        if late_quotes:
            cls.append('later_starting_source_quotes_by_now')
    if case.get('second_source_also_quotes'):
        cls.append('second_source_also_quotes')
    if case.get('first_source_other_symbols'):
        cls.append('first_source_carries_other_symbols')
    if case.get('tz'):
        cls.append('sizing_instant_in_other_time_zone')
    if case.get('broker_days_back'):
        cls.append('broker_clock_behind_the_sizing_instant')
    return Result(cls, nontrivial=bool(spread) or order != 'sorted')


@st.composite
def csv_cases(draw, long_only=True):
    import datetime as D
    from vlib import market
    d0 = draw(st.dates(min_value=D.date(1996, 1, 1), max_value=D.date(2038, 1, 1)))
    names = draw(market.symbol_names(2, 3))
    seed = draw(st.integers(0, 2 ** 31))
    late = draw(st.integers(1, len(names) - 1))
    miss = draw(st.sampled_from([False, True]))
    syms = {}
    for i, s in enumerate(names):
        off = 0 if i < late else draw(st.integers(3, 12))
        syms[s] = (market.build_rows(seed + i, d0 + D.timedelta(days=off), 25, missing=miss)
                   or market.build_rows(seed, d0, 25))
    blank = draw(st.sampled_from([False, False, True]))
    if blank:
        # the latest-starting symbol's first bar has an empty Open cell: nothing to trade at until that day's close
        for s in names[late:]:
            syms[s][0][3] = None
    first_late = max(market.first_date(r) for r in syms.values())
    where = draw(st.sampled_from(['before', 'before', 'just_before', 'at_open', 'after', 'blank_mid', 'blank_mid', 'stale']))
    if where == 'blank_mid':
        # a bar in the middle of the first symbol's history has an empty Open; the sizer is asked at that very open
        # (the latest earlier observation is the previous day's close)
        rows0 = syms[names[0]]
        k_ = draw(st.integers(1, len(rows0) - 1)) if len(rows0) > 1 else 0
        if k_ and D.date(*rows0[k_][:3]) > first_late:
            rows0[k_][3] = None
            t = [rows0[k_][0], rows0[k_][1], rows0[k_][2], 14, 30, 0]
        else:
            where = 'after'
    if where == 'blank_mid':
        pass
    elif where == 'before':
        d = first_late - D.timedelta(days=draw(st.integers(1, 3)))
        t = [d.year, d.month, d.day, 21, 0, 0]
    elif where == 'just_before':
        t = [first_late.year, first_late.month, first_late.day, 14, 29, 59]
    elif where == 'at_open':
        t = [first_late.year, first_late.month, first_late.day, 14, 30, 0]
    elif where == 'stale':
        # weeks after the last bar of every file (a halted market, monthly files): the last print is still the latest price
        last_ = max(D.date(r[0], r[1], r[2]) for rows_ in syms.values() for r in rows_)
        d = last_ + D.timedelta(days=draw(st.sampled_from([6, 9, 30, 400])))
        t = [d.year, d.month, d.day, draw(st.sampled_from([14, 21])), 30 if False else 0, 0]
    else:
        d = first_late + D.timedelta(days=draw(st.integers(1, 5)))
        t = [d.year, d.month, d.day, 21, 0, 0]
    w = {s: (draw(st.sampled_from([0.0, 0.5, 1.0, 0.25])) * (1 if long_only or draw(st.booleans()) else -1)) for s in names}
    return {'file_order': draw(st.sampled_from(['sorted', 'reversed', 'shuffled'])),
            'scan_dir': draw(st.sampled_from([False, False, True])),
            'asked_later_first': draw(st.sampled_from([False, False, True])),
            't_us': draw(st.sampled_from([0, 0, -400000, 600000, -1, 1])),
            'spread': draw(st.sampled_from([0.0, 0.0, 0.02, 0.3])),
            'late_source_first': draw(st.sampled_from([False, False, True])),
            'late_shift': draw(st.sampled_from([91, 4, 2])), 'late_source_raises': draw(st.booleans()),
            'second_source_also_quotes': draw(st.sampled_from([False, False, True])),
            'first_source_other_symbols': draw(st.sampled_from([False, False, True])),
            'handler_universe': draw(st.sampled_from([None, None, 'later', 'empty'])),
            'tz': draw(st.sampled_from([None, None, 'America/New_York', 'Asia/Tokyo'])),
            'broker_days_back': draw(st.sampled_from([0, 0, 1, 4, 9])),
            'blank_first_open': blank, 'where': where, 'symbols': syms, 't': t, 'weights': w, 'equity': draw(st.sampled_from([1e6, 1e4, 250000.0])),
            'fee': draw(st.sampled_from([None, [0.001, 0.005]])), 'adjust': draw(st.booleans()),
            'arg': draw(st.sampled_from([0.05, 0.0, 0.3])) if long_only else draw(st.sampled_from([1.0, 2.0, 0.5]))}

PARTS = [
    Part('random', 'hyp', run_case, strategy=cases(), quick=15000, thorough=800000, quick_shards=8),
    Part('grid', 'sweep', run_case, sweep=grid, quick_shards=8, exhaustive=True),
    Part('csv', 'hyp', run_csv, strategy=csv_cases(True), quick=300, thorough=24000, quick_shards=8),
]
