"""C04 - orders fill exactly once, in full, only in exchange hours, sells first."""
import datetime as D

import pandas as pd

from vlib import cal, kit, machine
from vlib.runner import Part, Result, Violation
from vlib.sut import load

PROPERTY = 'C04'
RULE = ('(histories) M-broker rule-based machine restricted to portfolio creation, funding, order submission, quote '
        'moves and clock updates; instants drawn from a boundary-heavy pool (Mon-Fri x {00:00, 14:29:59, 14:30:00, '
        '14:30:01, 17:00, 20:59:59, 21:00:00, 21:00:01, 23:59}, weekends, the same instant again), >= 40% inside '
        'exchange hours; every asset always quoted; order batches through the real ExecutionHandler (submit_orders '
        'on and off). Oracle: independent is_open(t) from integer fields; per-portfolio '
        'FIFO model. Submit leaves cash/holdings/history unchanged (==) and appends to the queue; a closed update '
        'fills nothing and changes nothing but marks; an open update fills exactly the pending orders, full quantity, '
        'stable-sorted sells before buys, stamped with the update time, one history event each, queue empty after, '
        'holdings delta == sum of order quantities; at every step each order is filled exactly once or still pending. '
        '(minutes) exhaustive sweep: one submit/update pair at every minute (quick: every 7th) of a fortnight, plus '
        'the :59 and :01 seconds around both boundaries. Non-trivial = an order waits through >= 1 closed update and '
        'fills later and a boundary instant (14:30:00, 21:00:00 or a weekend) occurs; sweep cases within 2 minutes '
        'of a boundary or on a weekend.'
        ' Round-5 reach: the same Order object may be submitted again (to the same or another portfolio: one more acceptance, one more fill; submissions are counted per order id) and orders may be submitted while their asset has no quote (nobody holds or awaits it; quoted again before the next update).'
        " Round-11 reach: a refused duplicate create_portfolio in between; rule swap_and_fill (one asset closed and another opened by the same update)."
        " Round-12 reach: list_all_portfolios() among the read-only queries in between.")
ASSUMPTIONS = [
    'every ordered asset has a quote at the fill time (the statement\'s precondition)',
    'ordering across different portfolios inside one update is not asserted (not observable, not stated)',
    'histories of up to 40/60 steps, <=4 portfolios, <=5 assets; zero-fee model (fees are C05\'s subject)',
]


def new_harness():
    return machine.Harness('C04')


def run_history(ops):
    return machine.run_ops('C04', ops, new_harness)


def _machine(rec):
    return machine.make_machine('C04', rec, HIST)


def run_minute(case):
    """One order submitted just before `t`, broker updated at `t`: filled iff the exchange is open at t."""
    q = load()
    t = cal.ts6(case['t'])
    t0 = t - pd.Timedelta(days=3)
    dh = kit.StubDH({'EQ:A': (9.99, 10.0)})
    b = q.SimulatedBroker(t0, q.SimulatedExchange(t0), dh, initial_funds=1e5)
    b.create_portfolio('p')
    b.subscribe_funds_to_portfolio('p', 1e5)
    log = []
    kit.tap(b.portfolios['p'], log)
    b.submit_order('p', q.Order(t0, 'EQ:A', case['qty']))
    b.update(t)
    exp = cal.is_open(t)
    if bool(log) != exp:
        raise Violation('update at %s (%s): %s, exchange hours say %s' % (
            t, t.day_name(), 'filled' if log else 'not filled', 'open' if exp else 'closed'))
    if exp and (len(log) != 1 or log[0][1].quantity != case['qty'] or not b.open_orders['p'].empty()):
        raise Violation('update at %s: fills %s for one order of %d' % (t, [x[1].quantity for x in log], case['qty']))
    if not exp and b.open_orders['p'].qsize() != 1:
        raise Violation('closed update at %s dropped the pending order' % t)
    sec = t.hour * 3600 + t.minute * 60 + t.second
    near = min(abs(sec - 52200), abs(sec - 75600)) <= 120
    cls = ['open' if exp else 'closed']
    if near:
        cls.append('near_boundary')
    if t.weekday() >= 5:
        cls.append('weekend')
    return Result(cls, nontrivial=near or t.weekday() >= 5)


def minutes(tier):
    step = 7 if tier == 'quick' else 1
    d0 = D.date(2021, 3, 1)
    k = 0
    for day in range(14):
        d = d0 + D.timedelta(days=day)
        for m in range(0, 1440, 1):
            k += 1
            if m % step and m not in (869, 870, 871, 1259, 1260, 1261):
                continue
            yield {'t': [d.year, d.month, d.day, m // 60, m % 60, 0], 'qty': 5 if k % 2 else -5}
        for h, mi, s in ((14, 29, 59), (14, 30, 1), (20, 59, 59), (21, 0, 1)):
            yield {'t': [d.year, d.month, d.day, h, mi, s], 'qty': 3}


def year_days(tier):
    d = D.date(2020, 1, 1)
    k = 0
    while d <= D.date(2021, 12, 31):
        k += 1
        yield {'t': [d.year, d.month, d.day, 15, 0, 0], 'qty': 4 if k % 2 else -4}
        d += D.timedelta(days=1)


def post(info):
    if not info.get('fills'):
        return 'no fill occurred in the generated histories'


HIST = Part('histories', 'machine', run_history, machine=_machine, quick=2500, thorough=64000, quick_shards=8,
            steps=(40, 60))
HIST.new_harness = new_harness
PARTS = [HIST, Part('minutes', 'sweep', run_minute, sweep=minutes, quick_shards=4, exhaustive=True),
         Part('days', 'sweep', run_minute, sweep=year_days, quick_shards=4, exhaustive=True)]
