"""C01 - cash is conserved across master account, portfolios and fills."""
from vlib import machine
from vlib.runner import Part

PROPERTY = 'C01'
RULE = ('Rule-based state machine (Hypothesis stateful) over a real SimulatedBroker + SimulatedExchange + stub quotes: '
        'account subscribe/withdraw, portfolio creation (<=4), portfolio subscribe/withdraw (fractions of the live '
        'balance and amounts {0,0.01,0.5,1,1.5,..}), orders (any/close/flip, +-1..500 shares, 1-5 assets), quote '
        'moves (bid != ask, prices down to 0.01), clock updates over boundary-heavy instants; zero/default/percentage '
        'fee models (rates 0 or >= 1e-3), accounts denominated in USD, GBP or EUR, order batches through the real '
        'ExecutionHandler. Oracle after every step (fills belong to the portfolio their order was submitted to; '
        'balances in other currencies stay zero): exact-rational ledger of master and per-portfolio '
        'cash built from the tapped Transactions (price*qty + commission) and the transfers; both account-level '
        'aggregates return and equal the per-portfolio getters and their sum; history has exactly one event per '
        'cash movement, in order, right type, amount and running balance within half a cent of the true value and a '
        'whole number of cents; history_to_df has the same rows. Non-trivial = a fill with commission or spread, a '
        'transfer in each direction, and (>=2 portfolios or negative cash or a flip through zero). Distinct = '
        'distinct op list.')
ASSUMPTIONS = [
    'fill price, quantity and commission are taken from the tapped Transaction (which side of the quote and which '
    'fee is C05\'s subject)',
    'histories of up to 40 (quick) / 60 (thorough) steps, <=4 portfolios, <=5 assets',
    'float tolerance 1e-9 of the largest amount seen in the account',
    'valid operations that are refused without changing state are counted, not failed; >5% refusals = inconclusive',
]


def new_harness():
    return machine.Harness('C01')


def run_case(ops):
    return machine.run_ops('C01', ops, new_harness)


def _machine(rec):
    return machine.make_machine('C01', rec, PART)


def post(info):
    if info.get('valid_ops', 0) and info.get('unexpected_refusals', 0) > 0.05 * info['valid_ops']:
        return '%d of %d valid operations were refused' % (info['unexpected_refusals'], info['valid_ops'])
    if not info.get('fills'):
        return 'no fill occurred'


PART = Part('histories', 'machine', run_case, machine=_machine, quick=3000, thorough=64000, quick_shards=8,
            steps=(40, 60))
PART.new_harness = new_harness
PARTS = [PART]
