"""C01 - cash is conserved across master account, portfolios and fills."""
from fractions import Fraction as F

import pandas as pd

from vlib import machine
from vlib.runner import Part, Result, Violation
from vlib.sut import load
from checks.c02_holdings import NAMES, T0, programs

PROPERTY = 'C01'
RULE = ('Rule-based state machine (Hypothesis stateful) over a real SimulatedBroker + SimulatedExchange + stub quotes: '
        'account subscribe/withdraw, portfolio creation (<=4), portfolio subscribe/withdraw (fractions of the live '
        'balance and amounts {0,0.01,0.5,1,1.5,..}), orders (any/close/flip, +-1..500 shares, 1-5 assets), quote '
        'moves (bid != ask, prices down to 0.01), clock updates over boundary-heavy instants; zero/default/percentage '
        'fee models (rates 0 or >= 1e-3), accounts denominated in USD, GBP or EUR, order batches through the real '
        'ExecutionHandler. Oracle after every step (fills belong to the portfolio their order was submitted to; '
        'balances in other currencies stay zero): exact-rational ledger of master and per-portfolio '
        'cash built from the tapped Transactions (price*qty + commission) and the transfers; both account-level '
        'aggregates return and equal the per-portfolio getters and their sum; history has exactly one event per '
        'cash movement, in order, right type, amount and running balance within half a cent of the true value and a '
        'whole number of cents; history_to_df has the same rows. Non-trivial = a fill with commission or spread, a '
        'transfer in each direction, and (>=2 portfolios or negative cash or a flip through zero). Distinct = '
        'distinct op list.')
ASSUMPTIONS = [
    'fill price, quantity and commission are taken from the tapped Transaction (which side of the quote and which '
    'fee is C05\'s subject)',
    'histories of up to 40 (quick) / 60 (thorough) steps, <=4 portfolios, <=5 assets',
    'float tolerance 1e-9 of the largest amount seen in the account',
    'valid operations that are refused without changing state are counted, not failed; >5% refusals = inconclusive',
]


def new_harness():
    return machine.Harness('C01')


def run_case(ops):
    return machine.run_ops('C01', ops, new_harness)


def _machine(rec):
    return machine.make_machine('C01', rec, PART)


def post(info):
    if info.get('valid_ops', 0) and info.get('unexpected_refusals', 0) > 0.05 * info['valid_ops']:
        return '%d of %d valid operations were refused' % (info['unexpected_refusals'], info['valid_ops'])
    if not info.get('fills'):
        return 'no fill occurred'


def run_program(case):
    """A Portfolio driven directly: deposits, withdrawals and fills with arbitrary commissions (flat fees larger than
    the proceeds of a small sale included).  Cash and history against an exact ledger."""
    q = load()
    port = q.Portfolio(T0, portfolio_id='p')
    cash = F(0)
    hist = []
    if case['cash'] > 0:
        port.subscribe_funds(T0, case['cash'])
        cash += F(case['cash'])
        hist.append(('subscription', F(case['cash']), cash))
    t = T0
    big = F(case['cash'])
    flags = set()
    for i, op in enumerate(case['ops']):
        t = t + pd.Timedelta(minutes=op[1])
        a = NAMES[op[2]]
        if op[0] == 'fill':
            _, _, _, qty, price, comm = op
            oid = ('o%d' % (i // 3)) if case.get('repeat_order_ids') else 'o%d' % i
            # (the commission is the documented sixth argument: by keyword, or by position)
            port.transact_asset(q.Transaction(a, qty, t, price, oid, commission=comm) if i % 2 else
                                q.Transaction(a, qty, t, price, oid, comm))
            cost = F(price) * qty + F(comm)
            cash -= cost
            hist.append(('asset_transaction', -cost, cash))
            big = max(big, abs(cost), abs(cash))
            if qty < 0 and cost > 0:
                flags.add('sale_costing_more_than_its_proceeds')
            if i % 7 == 3 and cash > 0:
                w = float(cash) * 0.25
                port.withdraw_funds(t, w)
                cash -= F(w)
                hist.append(('withdrawal', -F(w), cash))
        else:
            port.update_market_value_of_asset(a, op[3], t)
        tol = 1e-9 * float(big) + 1e-12
        if abs(port.cash - float(cash)) > tol:
            raise Violation('step %d %s: cash %r, deposits - withdrawals - fills (price*qty + commission) = %r' % (
                i, op, port.cash, float(cash)))
    h = port.history
    if len(h) != len(hist):
        raise Violation('history has %d events, %d cash movements happened' % (len(h), len(hist)))
    for e, (ty, amt, run) in zip(h, hist):
        if e.type != ty:
            raise Violation('history event %s should be a %s' % (e, ty))
        for label, got, want in (('amount', e.credit - e.debit, amt), ('balance', e.balance, run)):
            if abs(got - float(want)) > 0.005 + 1e-9 * float(big):
                raise Violation('history %s %r, true value %r (event %s)' % (label, got, float(want), e))
    nfill = sum(1 for op in case['ops'] if op[0] == 'fill')
    return Result(sorted(flags), nontrivial=nfill >= 2 and any(op[0] == 'fill' and op[5] > 0 for op in case['ops']))


PART = Part('histories', 'machine', run_case, machine=_machine, quick=3000, thorough=64000, quick_shards=8,
            steps=(40, 60))
PART.new_harness = new_harness
PARTS = [PART, Part('programs', 'hyp', run_program, strategy=programs(), quick=1500, thorough=120000, quick_shards=8)]
