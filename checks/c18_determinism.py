"""C18 - identical inputs give identical results."""
import atexit
import datetime as D
import json
import os
import subprocess
import sys

from hypothesis import strategies as st

from vlib import cal, market, sessgen, session
from vlib.runner import Part, Result, Violation, VERIF
from vlib.sut import REPO, clear_caches, load

PROPERTY = 'C18'
RULE = ('Generated sessions (3-6 symbols with hash-diverse names, dense markets with tie-prone prices: flat or '
        'identical streams; dynamic universes where several assets enter at the same instant; alpha models fixed, '
        'universe-driven, top-N momentum (the shipped example model), SMA trend, inverse volatility; every rebalance '
        'kind, both sizers) are run (a) twice in one process, (b) with a data-source object that already served a '
        'different session and after a session on another market in the same process (warm memoised quotes), and (c) '
        'in persistent interpreters started with PYTHONHASHSEED 1, 2, 3 (thorough: 1-4 and a VERIF_SEED-derived one), '
        'each of which first runs a session differing from the case in one parameter group (schedule / money and '
        'sizing / alpha) - '
        'one) against the in-process run under hash seed 0. Oracle: the digest - history events (fills without order '
        'ids), equity curve and recorded target allocations incl. column order, all by repr - must be identical '
        'everywhere. Non-trivial = >= 3 assets and >= 1 rebalance producing >= 2 fills; the same-instant-entry / tie '
        'class is counted separately.'
        " Part `reuse` (in-process): a fresh run against a run on a data-handler object that already served another session, with one symbol's file starting inside the session and the asset joining the universe shortly before its first bar; and sessions that build their own handler from the current directory after a backtest was run from another directory. Alpha kinds also include rotating weight vectors and a model reading the data source's range query."
        " Round-10 reach: a third of the markets quote unrounded doubles (seventeen significant digits), half of them below 1."
        " Round-11 reach: lookback lists are objects of the configuration, shared by every run of it."
        " Round-12 reach (reuse part): another vendor's files for the same symbols are loaded into a source of their own while the handler is in use; in cwd_mode a failing source construction is attempted and caught first."
        " Round-13 reach (reuse part): 8-12 symbols in a sixth of the cases; the source's adjust_prices flag is switched, the session's instants are asked, and it is switched back.")
ASSUMPTIONS = [
    'hash seeds 0-3 (quick) / 0-4 plus one derived from VERIF_SEED (thorough)',
    'order identifiers (uuid4) are excluded from the comparison, as the statement says',
    'sessions of 8-45 days, <= 6 symbols',
]
SYMS = ['SPY', 'AGG', 'XLB', 'XLC', 'A', 'AB', 'Z9', 'Q_1', 'GLD', 'TLT', 'EEM', 'IWM']

_workers = {}


def session_digest(case, fresh=False, data_source=None, path=None, shared=None, keep=None, data_handler=None):
    """Runs the case's session and returns its digest (a dict of lists of strings)."""
    if fresh:
        clear_caches()
    cfg, mk = case['cfg'], case['market']
    if case.get('pre_clock'):
        # somebody listed a clock over the very same instants, written in another time zone, before the session
        try:
            q_ = load()
            list(q_.DailyBusinessDaySimulationEngine(cal.ts6(cfg['start']).tz_convert(case['pre_clock']),
                                                     cal.ts6(cfg['end']).tz_convert(case['pre_clock']),
                                                     pre_market=False, post_market=False))
        except Exception:                                         # noqa
            pass
    for pcfg in case.get('prelude', []):
        with market.csv_dir(mk) as p0:
            try:
                session.run_session(pcfg, p0, list(mk))
            except Exception:                                     # noqa  (a prelude may be an invalid configuration)
                pass
    if case.get('own_env'):
        # the session builds its own handler from QSTRADER_CSV_DATA_DIR, which is set to this case's directory just now
        with market.csv_dir(mk) as p:
            old = os.environ.get('QSTRADER_CSV_DATA_DIR')
            os.environ['QSTRADER_CSV_DATA_DIR'] = p
            try:
                r = session.run_session(cfg, p, list(mk), own_handler=True)
            finally:
                if old is None:
                    os.environ.pop('QSTRADER_CSV_DATA_DIR', None)
                else:
                    os.environ['QSTRADER_CSV_DATA_DIR'] = old
    elif path is not None:
        r = session.run_session(cfg, path, list(mk), data_source=data_source, shared=shared, data_handler=data_handler)
    else:
        with market.csv_dir(mk) as p:
            r = session.run_session(cfg, p, list(mk), data_source=data_source, shared=shared)
    if keep is not None:
        keep['universe'], keep['alpha_inner'] = r.universe, r.alpha_inner
    d = session.digest(r)
    d['error'] = [repr(r.error[:2] + (str(r.error[2]),))] if r.error else []
    d['nfills'] = [str(len(r.fills))]
    return d


def worker(hashseed):
    w = _workers.get(hashseed)
    if w is None or w.poll() is not None:
        # (the worker interpreters start - and import the library - with the data-directory variable pointing somewhere
        # else; a case that relies on it sets it to its own directory first)
        env = dict(os.environ, PYTHONHASHSEED=str(hashseed), PYTHONPATH=VERIF, VERIF_REPO=REPO, MPLBACKEND='Agg',
                   QSTRADER_CSV_DATA_DIR=os.path.join(VERIF, 'vlib'))
        w = subprocess.Popen([sys.executable, '-m', 'vlib.c18worker'], stdin=subprocess.PIPE, stdout=subprocess.PIPE,
                             stderr=subprocess.DEVNULL, env=env, cwd=VERIF, text=True, bufsize=1)
        _workers[hashseed] = w
    return w


def ask(hashseed, case):
    w = worker(hashseed)
    w.stdin.write(json.dumps(case) + '\n')
    w.stdin.flush()
    line = w.stdout.readline()
    if not line:
        raise RuntimeError('C18 worker with PYTHONHASHSEED=%s died' % hashseed)
    res = json.loads(line)
    if not res['ok']:
        raise RuntimeError('C18 worker error: ' + res['error'])
    return res['digest']


@atexit.register
def _close():
    for w in _workers.values():
        try:
            w.stdin.close()
            w.wait(timeout=2)
        except Exception:                                         # noqa
            w.kill()


def hash_seeds():
    if os.environ.get('VERIF_TIER', '') == 'thorough':
        extra = 5 + int(os.environ.get('VERIF_SEED', '1') or 1) % 1000
        return [1, 2, 3, 4, extra]
    return [1, 2, 3]


def variant(cfg):
    """A different session over the same data (used to warm the memoised data source)."""
    v = json.loads(json.dumps(cfg))
    v['rebalance'] = 'daily' if cfg['rebalance'] != 'daily' else 'weekly'
    v['weekday'] = 'TUE'
    v['cash'] = cfg['cash'] * 0.5 + 1234.0
    return v


def preludes(cfg):
    """Sessions that differ from cfg in ONE respect each; run before the case in a worker interpreter, they must
    not influence it (a cache or module-level table keyed too coarsely would)."""
    out = []
    a = json.loads(json.dumps(cfg))                   # same dates and kind, another weekday / another kind
    if cfg['rebalance'] == 'weekly':
        a['weekday'] = 'TUE' if cfg['weekday'].upper() != 'TUE' else 'THU'
    else:
        a['rebalance'], a['weekday'] = 'weekly', 'WED'
    out.append(a)
    b = json.loads(json.dumps(cfg))                   # same everything, other money and sizing parameters
    b['cash'] = cfg['cash'] * 3 + 77.0
    b['fee'] = [0.002, 0.001] if not cfg['fee'] else None
    b['buffer'] = 0.2 if cfg['buffer'] != 0.2 else 0.1
    b['leverage'] = cfg['leverage'] * 1.5
    out.append(b)
    c = json.loads(json.dumps(cfg))                   # same everything, other weights / signal parameters
    al = c['alpha']
    if al['kind'] == 'fixed':
        al['weights'] = {k: (0.37 if i % 2 else 0.11) for i, k in enumerate(sorted(al['weights']))}
    elif al['kind'] == 'single':
        al['signal'] = al['signal'] * 0.5
    elif al['kind'] == 'topn':
        al['top'] = 1 if al['top'] != 1 else 2
    elif al['kind'] == 'sma':
        al['slow'] = al['slow'] + 1
    elif al['kind'] == 'cycle':
        al['vectors'] = list(reversed(al['vectors']))
    else:
        al['lookback'] = al['lookback'] + 1
    al.pop('lookback_list', None)
    c['burn_in'] = None
    out.append(c)
    return out


def _two_source_handler(q, case):
    """A handler over two overlapping sources (the first-listed one starts mid-session, at other prices) must give
    the same results whether it is fresh or already served a session over the early period."""
    cfg, mk = case['cfg'], case['market']
    d0 = cal.date3(cfg['start'])
    # the first-listed source only has bars from the session start on (at other prices); the second covers everything
    late = {s: [r[:3] + [None if x is None else round(x * 1.5, 4) for x in r[3:]] for r in rows
                if D.date(r[0], r[1], r[2]) >= d0] for s, rows in mk.items()}
    if any(not rows for rows in late.values()):
        return
    # an earlier session over the days before the start, which only the second source can price
    e0, e1 = d0 - D.timedelta(days=8), d0 - D.timedelta(days=1)
    early = {'start': [e0.year, e0.month, e0.day, 0, 0, 0], 'end': [e1.year, e1.month, e1.day, 23, 59, 0],
             'rebalance': 'daily', 'long_only': True, 'buffer': 0.05, 'leverage': 1.0, 'fee': None, 'cash': 1e6,
             'burn_in': None, 'adjust': cfg.get('adjust', True),
             'universe': {'kind': 'static', 'assets': ['EQ:' + s for s in mk]},
             'alpha': {'kind': 'fixed', 'weights': {'EQ:' + s: 1.0 for s in mk}}}
    with market.csv_dir(mk) as p_full, market.csv_dir(late) as p_late:
        def handler():
            srcs = [q.CSVDailyBarDataSource(p, q.Equity, adjust_prices=cfg.get('adjust', True), csv_symbols=list(mk))
                    for p in (p_late, p_full)]
            return q.BacktestDataHandler(None, data_sources=srcs)
        clear_caches()
        a = session.run_session(cfg, p_full, list(mk), data_handler=handler())
        h = handler()
        session.run_session(early, p_full, list(mk), data_handler=h)
        import pandas as pd
        for a_ in ['EQ:' + s for s in mk]:
            for f_ in (h.get_asset_latest_bid_price, h.get_asset_latest_ask_price, h.get_asset_latest_mid_price):
                try:
                    f_(pd.Timestamp(d0.year, d0.month, d0.day, 15, 0), a_)       # a timestamp without a time zone
                except Exception:                                 # noqa
                    pass
        b = session.run_session(cfg, p_full, list(mk), data_handler=h)
    da, db = session.digest(a), session.digest(b)
    d = session.first_diff(da, db)
    if d or (a.error is None) != (b.error is None):
        raise Violation('a two-source data handler that already served a session over the early period gives different '
                        'results than a fresh one: %s' % (d or (a.error, b.error)))


def _poke(q, ds, cfg, mk):
    """Other requests a long-lived source / handler may have answered (or refused) before the session: a range query
    for adjusted closes through a handler, a range query on the source, price queries with a timestamp that carries no
    time zone.  Whatever they return or raise, they are read-only requests."""
    import pandas as pd
    h = q.BacktestDataHandler(None, data_sources=[ds])
    s0, s1 = cal.ts6(cfg['start']), cal.ts6(cfg['end'])
    assets = ['EQ:' + s for s in mk]
    def other_zone_clock():
        return list(q.DailyBusinessDaySimulationEngine(s0.tz_convert('America/New_York'), s1.tz_convert('America/New_York'),
                                                       pre_market=False, post_market=False))
    for f in (other_zone_clock,
              lambda: h.get_assets_historical_range_close_price(s0 - pd.Timedelta(days=5), s1, assets, adjusted=True),
              lambda: h.get_assets_historical_range_close_price(s0, s1, assets),
              lambda: ds.get_assets_historical_closes(s0 - pd.Timedelta(days=5), s1, assets),
              lambda: h.get_asset_latest_bid_price(pd.Timestamp(s0.year, s0.month, s0.day, 15, 0), assets[0]),
              lambda: h.get_asset_latest_mid_price(pd.Timestamp(s1.year, s1.month, s1.day), assets[-1])):
        try:
            f()
        except Exception:                                         # noqa  (refusals are fine; lasting effects are not)
            pass
    return h


def run_case(case):
    q = load()
    kept = {}
    base = session_digest(case, fresh=True, keep=kept)
    again = session_digest(case)
    d = session.first_diff(base, again)
    if d or base['error'] != again['error']:
        raise Violation('the same session run twice in one process differs: %s' % (d or (base['error'], again['error'])))
    # the same backtest again re-using the universe and alpha-model objects of the first run
    shared_d = session_digest(case, shared=kept)
    d = session.first_diff(base, shared_d)
    if d or base['error'] != shared_d['error']:
        raise Violation('re-running the session with the same universe / alpha-model objects gives different results: %s' % (
            d or (base['error'], shared_d['error'])))
    # warm data source: the object first serves a different session, and another market was queried before
    cfg, mk = case['cfg'], case['market']
    other = {s: market.build_rows(99 + i, cal.date3(cfg['start']) - D.timedelta(days=9), 70) for i, s in enumerate(mk)}
    session_digest({'cfg': cfg, 'market': other})
    with market.csv_dir(mk) as path:
        # another source object over the same files with the other adjustment setting answers first ...
        other_cfg = dict(variant(cfg), adjust=not cfg.get('adjust', True))
        ds_other = q.CSVDailyBarDataSource(path, q.Equity, adjust_prices=other_cfg['adjust'], csv_symbols=list(mk))
        session_digest({'cfg': other_cfg, 'market': mk}, data_source=ds_other, path=path)
        session_digest({'cfg': dict(cfg, adjust=other_cfg['adjust']), 'market': mk}, data_source=ds_other, path=path)
        fresh_src = session_digest(case, path=path)
        d = session.first_diff(base, fresh_src)
        if d or base['error'] != fresh_src['error']:
            raise Violation('a new data source gives different results after another source object over the same files '
                            '(other adjust_prices setting) was used: %s' % (d or (base['error'], fresh_src['error'])))
        ds = q.CSVDailyBarDataSource(path, q.Equity, adjust_prices=cfg.get('adjust', True), csv_symbols=list(mk))
        session_digest({'cfg': variant(cfg), 'market': mk}, data_source=ds, path=path)
        for d_ in cal.bdays(cal.date3(cfg['start']), cal.date3(cfg['end'])):
            for hh, mm in ((14, 30), (21, 0)):
                t_ = cal.ts(d_, hh, mm).tz_convert('America/New_York')      # same instants, another time zone
                for s_ in mk:
                    ds.get_bid(t_, 'EQ:' + s_)
                    ds.get_ask(t_, 'EQ:' + s_)
        _poke(q, ds, cfg, mk)
        warm = session_digest(case, data_source=ds, path=path)
    d = session.first_diff(base, warm)
    if d or base['error'] != warm['error']:
        raise Violation('a data source that already served another session gives different results: %s' % (
            d or (base['error'], warm['error'])))
    # the very same data-handler object serves another session first, then the case
    with market.csv_dir(mk) as path:
        ds_h = q.CSVDailyBarDataSource(path, q.Equity, adjust_prices=cfg.get('adjust', True), csv_symbols=list(mk))
        h = q.BacktestDataHandler(None, data_sources=[ds_h])
        session_digest({'cfg': variant(cfg), 'market': mk}, data_source=ds_h, path=path, data_handler=h)
        same_h = session_digest(case, data_source=ds_h, path=path, data_handler=h)
    d = session.first_diff(base, same_h)
    if d or base['error'] != same_h['error']:
        raise Violation('a data handler that already served another session gives different results: %s' % (
            d or (base['error'], same_h['error'])))
    if case.get('two_sources'):
        _two_source_handler(q, case)
        cls_two = ['two_source_handler_reused']
    else:
        cls_two = []
    pre = preludes(cfg)
    for k, hs in enumerate(hash_seeds()):
        other_d = ask(hs, dict(case, prelude=[pre[k % len(pre)]], pre_clock=[None, 'America/New_York', 'Asia/Tokyo'][k % 3]))
        d = session.first_diff(base, other_d)
        if d or base['error'] != other_d['error']:
            raise Violation('an interpreter with PYTHONHASHSEED=%d that first ran a session differing in one parameter '
                            'group (%s) gives different results than a fresh run under hash seed %s: %s' % (
                                hs, ['schedule', 'money/sizing', 'alpha'][k % 3], os.environ.get('PYTHONHASHSEED', '?'),
                                d or (base['error'], other_d['error'])))
    if cfg.get('adjust', True):
        # a session that builds its own handler from the data-directory variable, in an interpreter that was started
        # with the variable pointing elsewhere (default adjustment, every file of the directory: the same data)
        own_d = ask(hash_seeds()[0], dict(case, own_env=True))
        d = session.first_diff(base, own_d)
        if d or base['error'] != own_d['error']:
            raise Violation('a session building its own handler from QSTRADER_CSV_DATA_DIR (set just before; the '
                            'interpreter was started with another value) gives different results: %s' % (
                                d or (base['error'], own_d['error'])))
        cls_two = cls_two + ['own_handler_from_environment_variable']
    clear_caches()
    cls = list(case.get('labels', [])) + [cfg['alpha']['kind'], cfg['universe']['kind'], cfg['rebalance']] + cls_two
    nf = int(base['nfills'][0])
    if base['error']:
        cls.append('session_error')
    return Result(cls, nontrivial=len(mk) >= 3 and nf >= 2, info={'fills': nf})


def run_reuse(case):
    """In-process only (no worker interpreters, so many more cases): a fresh run against a run on a data handler - and
    its data source - that already served another session over the same files."""
    q = load()
    cfg, mk = case['cfg'], case['market']
    base = session_digest(case, fresh=True)
    with market.csv_dir(mk) as path:
        ds_h = q.CSVDailyBarDataSource(path, q.Equity, adjust_prices=cfg.get('adjust', True), csv_symbols=list(mk))
        h = q.BacktestDataHandler(None, data_sources=[ds_h])
        session_digest({'cfg': variant(cfg), 'market': mk}, data_source=ds_h, path=path, data_handler=h)
        _poke(q, ds_h, cfg, mk)
        # the source's public adjust_prices flag is switched, a few quotes are asked, and the flag is switched back
        flag_ = ds_h.adjust_prices
        ds_h.adjust_prices = not flag_
        for s_ in mk:
            for d_ in cal.bdays(cal.date3(cfg['start']), cal.date3(cfg['end']))[:12]:
                try:
                    ds_h.get_bid(cal.ts(d_, 21, 0), 'EQ:' + s_)
                    ds_h.get_ask(cal.ts(d_, 14, 30), 'EQ:' + s_)
                except Exception:                                 # noqa
                    pass
        ds_h.adjust_prices = flag_
        # another vendor's files for the same symbols (other prices) are loaded into a source of their own meanwhile
        decoy = {s: market.build_rows(4242 + i, cal.date3(cfg['start']) - D.timedelta(days=9), 70) for i, s in enumerate(mk)}
        with market.csv_dir(decoy) as p_decoy:
            q.CSVDailyBarDataSource(p_decoy, q.Equity, adjust_prices=cfg.get('adjust', True), csv_symbols=list(mk))
        same_h = session_digest(case, data_source=ds_h, path=path, data_handler=h)
    clear_caches()
    d = session.first_diff(base, same_h)
    if d or base['error'] != same_h['error']:
        raise Violation('a data handler that already served another session gives different results: %s' % (
            d or (base['error'], same_h['error'])))
    cls = list(case.get('labels', [])) + [cfg['alpha']['kind'], cfg['universe']['kind'], cfg['rebalance']]
    if case.get('cwd_mode'):
        # sessions that build their own handler: from QSTRADER_CSV_DATA_DIR when set, else from the current directory.
        # A backtest run from directory B must read B's files whatever ran before it in the process
        other = {s: market.build_rows(977 + i, cal.date3(cfg['start']) - D.timedelta(days=9), 70) for i, s in enumerate(mk)}
        old_env, old_cwd = os.environ.get('QSTRADER_CSV_DATA_DIR'), os.getcwd()

        def own(p_sig):
            r_ = session.run_session(cfg, p_sig, list(mk), own_handler=True)
            d_ = session.digest(r_)
            d_['error'] = [repr(r_.error[:2] + (str(r_.error[2]),))] if r_.error else []
            return d_
        with market.csv_dir(mk) as pb, market.csv_dir(other) as pa:
            try:
                clear_caches()
                os.environ['QSTRADER_CSV_DATA_DIR'] = pb
                ref = own(pb)
                os.environ.pop('QSTRADER_CSV_DATA_DIR', None)
                os.chdir(pa)
                own(pb)
                os.chdir(pb)
                try:
                    # (a source over the other directory that fails to load - one listed symbol has no file - was attempted
                    # and the error caught)
                    q.CSVDailyBarDataSource(pa, q.Equity, csv_symbols=list(mk) + ['NOFILE'])
                except Exception:                                 # noqa
                    pass
                got = own(pb)
            finally:
                os.chdir(old_cwd)
                if old_env is None:
                    os.environ.pop('QSTRADER_CSV_DATA_DIR', None)
                else:
                    os.environ['QSTRADER_CSV_DATA_DIR'] = old_env
                clear_caches()
        d = session.first_diff(ref, got)
        if d or ref['error'] != got['error']:
            raise Violation('a session building its own data handler from the current directory gives different results '
                            'after a backtest was run from another directory in the same process: %s' % (
                                d or (ref['error'], got['error'])))
        cls.append('own_handler_from_current_directory')
    nf = int(base['nfills'][0])
    if base['error']:
        cls.append('session_error')
    return Result(cls, nontrivial=nf >= 2 and 'member_before_its_first_bar' in cls and not base['error'], info={'fills': nf})


@st.composite
def reuse_cases(draw):
    case = draw(cases(late=True))
    case.pop('two_sources', None)
    case['cwd_mode'] = draw(st.sampled_from([False, False, True]))
    return case


@st.composite
def cases(draw, late=False):
    d0, d1, start, end = draw(sessgen.window(min_days=8, max_days=45))
    names = draw(st.lists(st.sampled_from(SYMS), min_size=3, max_size=6, unique=True))
    if late and draw(st.sampled_from([False] * 5 + [True])):
        names = draw(st.lists(st.sampled_from(SYMS), min_size=8, max_size=len(SYMS), unique=True))      # a larger directory
    tie = draw(st.booleans())
    mk = draw(market.dense_markets(names, d0, (d1 - d0).days, lead=9, tie_prone=tie))
    cfg, lab = draw(sessgen.full_config(names, start, end, burn=draw(st.booleans()),
                                        alpha_kinds=('topn', 'topn', 'fixed', 'single', 'sma', 'invvol', 'hist', 'hist', 'cycle'),
                                        entry_kinds=('start', 'before', 'on', 'mid', 'mid')))
    if cfg['universe']['kind'] == 'dynamic' and draw(st.booleans()):
        # several assets entering at the same instant
        inst = sessgen.instants(cfg, start, end)
        n = (d1 - d0).days
        d = d0 + D.timedelta(days=draw(st.integers(1, max(1, n // 2))))
        e = draw(st.sampled_from(inst)) if inst and draw(st.booleans()) else [d.year, d.month, d.day, 0, 0, 0]
        keys = list(cfg['universe']['dates'])
        k = draw(st.integers(2, len(keys)))
        for a in keys[-k:]:
            cfg['universe']['dates'][a] = list(e)
        lab = lab + ['same_instant_entrants']
    if tie:
        lab = lab + ['tie_prone_market']
    if late or draw(st.sampled_from([False, False, True])):
        # one symbol's file starts a few days into the session (it may already be a universe member by then)
        s_ = draw(st.sampled_from(names))
        k_ = draw(st.integers(1, 6))
        cut_ = d0 + D.timedelta(days=k_)
        rows_ = [r for r in mk[s_] if D.date(r[0], r[1], r[2]) >= cut_]
        if rows_:
            mk[s_] = rows_
            lab = lab + ['symbol_file_starts_inside_session']
            if cfg['universe']['kind'] == 'dynamic' and (late or draw(st.booleans())):
                # ... and it joins the universe a little before its first bar exists
                e_ = cut_ - D.timedelta(days=draw(st.integers(0, 3)))
                cfg['universe']['dates']['EQ:' + s_] = [e_.year, e_.month, e_.day, 0, 0, 0]
                lab = lab + ['member_before_its_first_bar']
    if draw(st.sampled_from([False, False, True])):
        # a vendor quoting unrounded prices: every cell carries all seventeen significant digits of a double
        # (in half of them the prices are those of penny stocks: eighteen and more decimal places)
        f_ = draw(st.sampled_from([1.0000001234567891, 0.0010000001234567891]))
        mk = {s: [r[:3] + [None if x is None else x * f_ for x in r[3:]] for r in rows] for s, rows in mk.items()}
        lab = lab + ['prices_with_seventeen_significant_digits' + ('_below_one' if f_ < 1 else '')]
    return {'cfg': cfg, 'market': mk, 'labels': lab, 'two_sources': draw(st.sampled_from([False, False, True]))}


PARTS = [
    Part('sessions', 'hyp', run_case, strategy=cases(), quick=160, thorough=9600, quick_shards=8),
    Part('reuse', 'hyp', run_reuse, strategy=reuse_cases(), quick=640, thorough=32000, quick_shards=8),
]
