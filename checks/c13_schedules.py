"""C13 - rebalance schedules hold exactly the intended dates and meet a clock event."""
import datetime as D

from hypothesis import strategies as st

from vlib import cal, gen
from vlib.runner import Part, Result, Violation
from vlib.sut import load

PROPERTY = 'C13'
RULE = ('Generated (start, end, schedule kind, weekday, pre_market) with end time-of-day >= start time-of-day; '
        'start dates uniform 1990-2040 plus edge dates (month ends on weekends, leap days, year ends, every '
        'weekday incl. Sat/Sun), durations 0..800 days, arbitrary start time of day; invalid weekday strings. '
        'Oracle: schedule rebuilt from datetime.date arithmetic (list equality, strictly increasing, stamped '
        '21:00 / 14:30 UTC), membership of every instant in the clock\'s event times for the same range under '
        'all four pre/post flag settings, buy-and-hold = start or same time next Monday. Non-trivial = at '
        'least one instant and (range start or end falls on a scheduled date, or a weekend month end lies '
        'inside, or the start has a non-midnight time of day), or a rejected weekday.'
        " Round-10 reach: part `session`: the schedule a BacktestTradingSession builds for itself (every kind, with and without a weekday keyword that has no meaning for the kind) against the calendar, each instant an event of the session's own clock; invalid weekdays that are not strings (-1, -3, -5, 5, 7, None, 2.5; any error type counts as a rejection there)."
        " Round-11 reach: the clock is peeked at before the full pass; the `session` part asks the instants latest first, then earliest first, and re-reads the schedule; a quarter of the random cases run with the process's local zone set to New York / Tokyo."
        " Round-13 reach: ranges in 1600 / 2300 / 2400; two simultaneous passes over the clock.")
ASSUMPTIONS = [
    'UTC-aware pandas Timestamps; end time-of-day not before the start time-of-day (the stated domain)',
    'dates 1990-2040; ranges up to 800 days (random) and every start date 2019-2024 x 0..70 days (sweep)',
]

BAD_WEEKDAYS = ['SAT', 'SUN', '', 'XYZ', 'WEDNESDAY', 'MO', 'W-MON', 'mon ', '1', -1, -3, -5, 5, 7, None, 2.5]      # incl. values that are not strings


def _instants(dates_, pre):
    return [cal.ts(d, 14, 30) if pre else cal.ts(d, 21, 0) for d in dates_]


def run_case(case):
    ltz = case.get('local_tz')
    if not ltz:
        return _run_case(case)
    # the process runs with another local time zone (TZ): schedules are stated in UTC whatever the machine's zone is
    import os
    import time
    old = os.environ.get('TZ')
    os.environ['TZ'] = ltz
    time.tzset()
    try:
        res = _run_case(case)
        res.classes.append('process_local_zone_not_utc')
        return res
    finally:
        if old is None:
            os.environ.pop('TZ', None)
        else:
            os.environ['TZ'] = old
        time.tzset()


def _run_case(case):
    q = load()
    kind = case['kind']
    start = cal.ts6(case['start'])
    d0 = cal.date3(case['start'])
    cls = [kind]
    if kind == 'bad_weekday':
        end = cal.ts6(case['end'])
        try:
            q.WeeklyRebalance(start, end, case['weekday'], pre_market=case['pre'])
        except ValueError:
            return Result(['rejected_weekday'], nontrivial=True)
        except (TypeError, AttributeError):
            if isinstance(case['weekday'], str):
                raise
            return Result(['rejected_weekday', 'rejected_weekday_not_a_string'], nontrivial=True)
        raise Violation('weekday %r was accepted by the weekly schedule' % case['weekday'])
    if kind == 'buy_and_hold':
        got = q.BuyAndHoldRebalance(start).rebalances
        d = d0
        while d.weekday() > 4:
            d += D.timedelta(days=1)
        exp = [cal.ts(d, *case['start'][3:])]
        if list(got) != exp:
            raise Violation('buy-and-hold schedule %s, expected %s (start %s)' % (list(got), exp, start))
        cls.append('bah_start_weekend' if d != d0 else 'bah_start_bday')
        return Result(cls, nontrivial=(d != d0 or tuple(case['start'][3:]) != (0, 0, 0)))

    end = cal.ts6(case['end'])
    d1 = cal.date3(case['end'])
    pre = case['pre']
    pre_how = case.get('pre_how', 'bool')
    if pre_how == 'numpy':
        import numpy as np
        pre = np.bool_(pre)         # a flag read from a numpy / pandas comparison
    elif pre_how == 'int':
        pre = int(pre)
    if kind == 'weekly':
        wd = case['weekday']
        name = cal.WEEKDAYS[wd]
        if case.get('lower'):
            name = name.lower()
        got = q.WeeklyRebalance(start, end, name, pre_market=pre).rebalances
        exp_dates = cal.schedule_dates('weekly', d0, d1, wd)
    elif kind == 'daily':
        got = q.DailyRebalance(start, end, pre_market=pre).rebalances
        exp_dates = cal.schedule_dates('daily', d0, d1)
    else:
        got = q.EndOfMonthRebalance(start, end, pre_market=pre).rebalances
        exp_dates = cal.schedule_dates('end_of_month', d0, d1)
    got = list(got)
    exp = _instants(exp_dates, pre)
    if got != exp:
        k = next((i for i, (g, e) in enumerate(zip(got, exp)) if g != e), min(len(got), len(exp)))
        raise Violation('%s schedule differs at %d: got %s expected %s (lengths %d/%d; %s..%s)' % (
            kind, k, got[k] if k < len(got) else None, exp[k] if k < len(exp) else None,
            len(got), len(exp), start, end))
    for a, b in zip(got, got[1:]):
        if not a < b:
            raise Violation('%s schedule not strictly increasing: %s, %s' % (kind, a, b))
    # every instant coincides with a clock event of the same range, whatever the pre/post flags
    for pm, qm in ((False, False), (True, True), (True, False), (False, True)):
        eng = q.DailyBusinessDaySimulationEngine(start, end, pre_market=pm, post_market=qm)
        if pm != qm:
            next(iter(eng), None)              # (somebody looked at the first event only, before the full pass)
        times = set(e.ts for e in eng)
        if pm == qm and [a_.ts for a_, _ in zip(eng, eng)] != sorted(times):
            # (two consumers step one clock object side by side: each still sees every event)
            raise Violation('two simultaneous passes over the clock for %s..%s give one of them %d of its %d events' % (
                start, end, len([1 for _ in zip(eng, eng)]), len(times)))
        if set(e.ts for e in list(eng)) != times:
            raise Violation('the clock for %s..%s emits different events when iterated a second time' % (start, end))
        for r in got:
            if r not in times:
                raise Violation('%s instant %s is not a clock event for %s..%s (pre=%s post=%s)' % (
                    kind, r, start, end, pm, qm))
    cls += gen.range_classes(case['start'], case['end'])
    cls.append('pre_market' if pre else 'at_close')
    sched = set(exp_dates)
    edge = d0 in sched or d1 in sched
    if edge:
        cls.append('range_edge_on_schedule')
    wkend_me = any(
        (d + D.timedelta(days=1)).month != d.month and d.weekday() >= 5 for d in cal.days(d0, d1)
    ) if (d1 - d0).days <= 800 else False
    if wkend_me:
        cls.append('weekend_month_end_inside')
    if not got:
        cls.append('empty_schedule')
    nt = bool(got) and (edge or wkend_me or tuple(case['start'][3:]) != (0, 0, 0))
    return Result(cls, nontrivial=nt, info={'instants': len(got)})


@st.composite
def cases(draw):
    kind = draw(st.sampled_from(['weekly', 'weekly', 'daily', 'end_of_month', 'end_of_month', 'buy_and_hold']))
    dur = gen.short_durations if kind == 'daily' else gen.durations
    start, end = draw(gen.ranges(dur=dur))
    if kind != 'buy_and_hold' and draw(st.sampled_from([False] * 11 + [True])):
        # centuries away: schedules and clock are calendar arithmetic, whatever resolution the timestamps use
        y_ = draw(st.sampled_from([1600, 2300, 2400]))
        d_ = D.date(y_, draw(st.integers(1, 12)), draw(st.integers(1, 28)))
        e_ = d_ + D.timedelta(days=draw(st.integers(0, 75)))
        start, end = [d_.year, d_.month, d_.day] + start[3:], [e_.year, e_.month, e_.day] + end[3:]
    case = {'kind': kind, 'start': start, 'end': end, 'pre': draw(st.booleans()),
            'pre_how': draw(st.sampled_from(['bool', 'bool', 'numpy', 'int'])),
            'local_tz': draw(st.sampled_from([None, None, None, 'America/New_York', 'Asia/Tokyo']))}
    if kind == 'weekly':
        case['weekday'] = draw(st.integers(0, 4))
        case['lower'] = draw(st.booleans())
        if draw(st.sampled_from([False] * 15 + [True])):
            case['kind'] = 'bad_weekday'
            case['weekday'] = draw(st.sampled_from(BAD_WEEKDAYS))
    return case


def run_session_schedule(case):
    """The schedule a BacktestTradingSession builds for itself from (start, end, rebalance[, rebalance_weekday]) and
    tests clock events against: the same dates, stamped at the close, each one an event of the session's own clock."""
    q = load()
    start, end = cal.ts6(case['start']), cal.ts6(case['end'])
    d0, d1 = cal.date3(case['start']), cal.date3(case['end'])
    kind = case['kind']
    uni = q.StaticUniverse(['EQ:A'])
    kw = {}
    if case.get('weekday') is not None:
        kw['rebalance_weekday'] = case['weekday']
    bt = q.BacktestTradingSession(start, end, uni, q.FixedSignalsAlphaModel({'EQ:A': 1.0}), rebalance=kind,
                                  long_only=True, cash_buffer_percentage=0.05,
                                  data_handler=q.BacktestDataHandler(uni, data_sources=[]), **kw)
    got = list(bt.rebalance_schedule)
    if kind == 'buy_and_hold':
        d = d0
        while d.weekday() > 4:
            d += D.timedelta(days=1)
        exp = [cal.ts(d, *case['start'][3:])]
    else:
        wd = cal.WEEKDAYS.index(case['weekday'].upper()) if kind == 'weekly' else None
        exp = _instants(cal.schedule_dates(kind, d0, d1, wd), False)
    if got != exp:
        k = next((i for i, (g, e) in enumerate(zip(got, exp)) if g != e), min(len(got), len(exp)))
        raise Violation('the %s schedule of a session %s..%s (rebalance_weekday=%r) differs at %d: got %s expected %s '
                        '(lengths %d/%d)' % (kind, start, end, case.get('weekday'), k, got[k] if k < len(got) else None,
                                             exp[k] if k < len(exp) else None, len(got), len(exp)))
    if kind != 'buy_and_hold':
        times = set(e.ts for e in bt.sim_engine)
        # (asked latest first, then earliest first: the answer does not depend on what was asked before)
        for r in list(reversed(got)) + got:
            if r not in times or not bt._is_rebalance_event(r):
                raise Violation('%s instant %s of a session %s..%s is not an event of the session clock' % (kind, r, start, end))
        if list(bt.rebalance_schedule) != exp:
            raise Violation('after its instants were looked up the %s schedule of the session %s..%s holds %d of %d instants' % (
                kind, start, end, len(bt.rebalance_schedule), len(exp)))
    cls = ['session_' + kind]
    if kind != 'weekly' and case.get('weekday') is not None:
        cls.append('weekday_keyword_without_weekly')
    return Result(cls, nontrivial=len(got) > 0 and (kind == 'weekly' or case.get('weekday') is not None or
                                                    tuple(case['start'][3:]) != (0, 0, 0)), info={'instants': len(got)})


@st.composite
def session_cases(draw):
    kind = draw(st.sampled_from(['weekly', 'daily', 'end_of_month', 'end_of_month', 'buy_and_hold']))
    start, end = draw(gen.ranges(dur=gen.short_durations if kind == 'daily' else gen.durations,
                                 start_tod=st.sampled_from([(0, 0, 0), (14, 30, 0), (9, 0, 0)])))
    wd = draw(st.sampled_from(cal.WEEKDAYS))
    if kind != 'weekly' and draw(st.booleans()):
        wd = None
    elif draw(st.booleans()):
        wd = wd.lower()
    return {'kind': kind, 'start': start, 'end': end, 'weekday': wd}


def sweep(tier):
    if tier == 'quick':
        d0, d1, durs = D.date(2020, 1, 1), D.date(2020, 12, 31), (0, 3, 6, 7, 31, 62)
    else:
        d0, d1, durs = D.date(2019, 1, 1), D.date(2024, 12, 31), tuple(range(0, 71))
    for d in cal.days(d0, d1):
        for n in durs:
            e = d + D.timedelta(days=n)
            s6 = [d.year, d.month, d.day, 0, 0, 0]
            e6 = [e.year, e.month, e.day, 23, 59, 0]
            k = (d.toordinal() + n)
            yield {'kind': 'weekly', 'start': s6, 'end': e6, 'pre': bool(k & 1), 'weekday': k % 5, 'lower': False}
            yield {'kind': 'end_of_month', 'start': s6, 'end': e6, 'pre': bool(k & 1)}
            if n <= 10:
                yield {'kind': 'daily', 'start': s6, 'end': e6, 'pre': bool(k & 1)}
        yield {'kind': 'buy_and_hold', 'start': [d.year, d.month, d.day, 14, 30, 0], 'end': None, 'pre': False}


PARTS = [
    Part('random', 'hyp', run_case, strategy=cases(), quick=4000, thorough=240000, quick_shards=6),
    Part('sweep', 'sweep', run_case, sweep=sweep, quick_shards=6, exhaustive=True),
    Part('session', 'hyp', run_session_schedule, strategy=session_cases(), quick=800, thorough=40000, quick_shards=4),
]
