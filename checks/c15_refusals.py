"""C15 - rejected operations change nothing."""
from hypothesis import strategies as st
from hypothesis.stateful import precondition, rule

from vlib import machine
from vlib.runner import Part

PROPERTY = 'C15'
RULE = ('M-broker rule-based machine with every valid rule plus invalid requests injected at arbitrary points (after '
        'fills have created positions, with orders pending, with negative cash; overdrafts from 1e-9 and sub-cent '
        'excesses up to 1e6; accounts in USD/GBP/EUR): negative amounts on all four broker '
        'transfer calls and both Portfolio calls; amounts exceeding the available cash; unknown portfolio id on '
        'transfers, every getter and submit_order; duplicate id (str and int); unsupported currency (getter and '
        'constructor); negative initial funds; early timestamps on Portfolio.subscribe_funds / withdraw_funds / '
        'transact_asset / update_market_value_of_asset; negative price mark on a held asset; multi-fault calls; and '
        'broker-level transfers refused by a portfolio whose clock leads the broker (after a valid future-dated direct '
        'deposit). Oracle: the call raises, the type is the documented one (ValueError; KeyError for unknown ids in '
        'transfers, value getters and submit_order; either for multi-fault), and a deep snapshot (master balances, '
        'each portfolio\'s cash, holdings report, queued order ids, full history, key sets of portfolios and queues) '
        'is identical before and after; any other call that raises must satisfy the same equality. Non-trivial = '
        '>= 3 different refusal kinds in one history, at least one after a fill while an order is pending.'
        ' Round-4/5 reach: refusal kind stale_update (a broker update earlier than the clock of every position-holding portfolio); unsupported currency codes incl. ones differing from a supported code only in case or padding.'
        " Round-11 reach: rule swap_and_fill followed by a negative-quote / stale update that must be refused."
        " Round-13 reach: refusal kind remark_same_stamp (a mark repeating the last accepted mark time after a deposit moved the portfolio clock on).")
ASSUMPTIONS = [
    'the portfolio\'s internal clock is not part of the statement\'s list and is not compared',
    'valid broker clock updates never go back in time; the one backwards update generated (stale_update) is earlier than '
    'the clock of every position-holding portfolio, so its first re-mark is refused; the broker\'s own clock, which '
    'update() assigns before validating and the statement does not list, is put back by the harness',
    'histories of up to 40/60 steps',
]


def new_harness():
    return machine.Harness('C15')


def run_case(ops):
    return machine.run_ops('C15', ops, new_harness)


def _machine(rec):
    base = machine.make_machine('C15', rec, PART)

    class M15(base):
        @rule(kind=st.sampled_from(machine.Harness.BAD_KINDS), p=st.integers(0, 3),
              x=st.one_of(st.sampled_from([0.01, 1.0, 5.0, 1e-9, 100.0, 1e6, 0.004, 0.001]),
                          st.floats(0.01, 1000.0).map(lambda v: float('%.4g' % v))))
        def bad(self, kind, p, x):
            self._do(['bad', kind, p, x])

        @rule(kind=st.sampled_from(machine.Harness.BAD_KINDS), p=st.integers(0, 3), x=st.sampled_from([0.01, 1.0, 250.0, 0.004]))
        def bad2(self, kind, p, x):
            self._do(['bad', kind, p, x])

        @precondition(lambda self: self.h is not None and self.h.b is not None and '1234' not in self.h.b.portfolios
                      and len(self.h.pids) < 4)
        @rule()
        def create_numeric(self):
            self._do(['create', '1234'])

    M15.__name__ = 'Broker_C15'
    return M15


def post(info):
    if not info.get('refusals'):
        return 'no refusal was exercised'


PART = Part('histories', 'machine', run_case, machine=_machine, quick=2500, thorough=64000, quick_shards=8,
            steps=(40, 60))
PART.new_harness = new_harness
PARTS = [PART]
