#!/bin/bash
# Offline setup: make sure hypothesis is importable in /venv (install from the local wheelhouse if not),
# and that the code under test imports from /repo.
set -e
cd "$(dirname "$(readlink -f "$0")")"
if ! /venv/bin/python -c "import hypothesis" 2>/dev/null; then
  /venv/bin/pip install --no-index --find-links /opt/veriftools/wheels hypothesis
fi
PYTHONPATH="$PWD" /venv/bin/python - <<'PY'
import hypothesis, numpy, pandas
from vlib.sut import load
q = load()
print('setup ok: hypothesis', hypothesis.__version__, 'pandas', pandas.__version__, 'numpy', numpy.__version__)
PY
